#!/usr/bin/env python3
"""Regenerates the seeded-change tables of DESIGN.md from seeded/*/meta.json."""
import json, os, re
s = open('/verif/DESIGN.md').read()
def table(pred):
    t = "| seeded change | caught by (quick) | not caught by | what the check reported |\n|---|---|---|---|\n"
    for d in sorted(os.listdir('/verif/seeded')):
        if not pred(d):
            continue
        m = json.load(open(f'/verif/seeded/{d}/meta.json'))
        t += f"| `{d}` | {', '.join(m['caught_by_quick']) or '–'} | {', '.join(m['missed_by_quick']) or '–'} | {m['observed'].replace('|', '/')[:260]} |\n"
    return t
for name, pred in [('round1', lambda d: '-r2m' not in d and '-r3m' not in d and '-r4m' not in d and '-r5m' not in d and '-r6m' not in d and '-s' not in d), ('round2', lambda d: '-r2m' in d), ('round3', lambda d: '-r3m' in d), ('round4', lambda d: '-r4m' in d), ('round5', lambda d: '-r5m' in d), ('round6', lambda d: '-r6m' in d), ('sweep', lambda d: '-s' in d)]:
    s = re.sub(rf'<!-- TABLE:{name} -->.*?<!-- /TABLE:{name} -->', lambda m: f'<!-- TABLE:{name} -->\n' + table(pred) + f'<!-- /TABLE:{name} -->', s, flags=re.S)
open('/verif/DESIGN.md', 'w').write(s)
print('tables regenerated')
