//! Verification hooks (feature `verif-hooks`, off by default).
use std::cell::{Cell, RefCell};

#[derive(Debug, Clone)]
pub enum Event<'a> {
    TableLookup { flush: bool, slot: u16 },
    Deal { turn_index: u8, river_index: u8, player_indexes: &'a [usize], materialized: bool, depth: u32, stack_addr: usize },
}

thread_local! {
    static SINK: RefCell<Option<Box<dyn FnMut(&Event)>>> = RefCell::new(None);
    static ENABLED: Cell<bool> = Cell::new(false);
    static DEPTH: Cell<u32> = Cell::new(0);
}

pub fn set_sink(sink: Option<Box<dyn FnMut(&Event)>>) {
    ENABLED.with(|e| e.set(sink.is_some()));
    SINK.with(|s| *s.borrow_mut() = sink);
}

#[inline]
pub fn emit(event: Event) {
    if ENABLED.with(|e| e.get()) {
        SINK.with(|s| { if let Ok(mut g) = s.try_borrow_mut() { if let Some(f) = g.as_mut() { f(&event); } } });
    }
}

pub struct NextGuard;
impl NextGuard {
    #[inline]
    pub fn enter() -> NextGuard { DEPTH.with(|d| d.set(d.get() + 1)); NextGuard }
    pub fn depth() -> u32 { DEPTH.with(|d| d.get()) }
}
impl Drop for NextGuard { fn drop(&mut self) { DEPTH.with(|d| d.set(d.get() - 1)); } }
