#!/bin/bash
# Like try_mutant.sh, but against a SCRATCH COPY of the repository (never /repo), so several can run side by side:
#   try_mutant_scratch.sh <scratch dir> <patch.diff> <ID> [<ID> ...]
# Applies the property-breaking patch to the copy and runs the listed quick (or $TIER) checks against it.
# Prints one line per check (exit code, number of VIOLATION lines, first violation) and removes the copy.
set -u
BASE="$1"; P="$2"; shift 2
VERIF_DIR="$(cd "$(dirname "$0")" && pwd)"
SRC="${VERIF_REPO_SRC:-/repo}"
TIER="${TIER:-quick}"
PATCH="$(readlink -f "$P")"
rm -rf "$BASE"; mkdir -p "$BASE"
rsync -a --exclude target --exclude .git --exclude .mutants "$SRC/" "$BASE/repo/"
( cd "$BASE/repo" && git init -q && git add -A && git -c user.email=v@v -c user.name=v commit -qm base )
export VERIF_REPO="$BASE/repo" VERIF_TARGET="$BASE/target" VERIF_SKIP_MIRI="${VERIF_SKIP_MIRI:-1}"
cd "$VERIF_DIR"
( cd "$BASE/repo" && git apply "$PATCH" ) || { echo "$P: does not apply"; rm -rf "$BASE"; exit 3; }
for ID in "$@"; do
  START=$(date +%s)
  VERIF_EVIDENCE_FILE="$BASE/$ID.json" ./run_check.sh "$ID" "$TIER" > "$BASE/$ID.log" 2>&1
  RC=$?
  END=$(date +%s)
  FIRST=$(grep -m1 -E "^  violation:|INCONCLUSIVE" "$BASE/$ID.log" | cut -c1-260)
  N=$(grep -c "^VIOLATION" "$BASE/$ID.log")
  echo "$P $ID exit=$RC violations=$N time=$((END-START))s :: $FIRST"
done
rm -rf "$BASE"
