#!/bin/bash
# Runs every check at the given tier for several seeds on the unchanged tree; evidence goes to a scratch dir.
#   silence.sh <quick|thorough> <seed> [<seed> ...]
set -u
TIER="$1"; shift
cd /verif
OUT=$(mktemp -d /tmp/silence.XXXXXX)
FAIL=0
for SEED in "$@"; do
  for ID in C01 C02 C03 C04 C05 C06 C07 C08 C09 C10 C11 C12 C13 C14 C15 C16 C17; do
    START=$(date +%s)
    VERIF_SEED=$SEED VERIF_EVIDENCE_FILE="$OUT/$ID-$SEED.json" ./run_check.sh $ID $TIER > "$OUT/$ID-$SEED.log" 2>&1
    RC=$?
    END=$(date +%s)
    echo "seed=$SEED $ID exit=$RC time=$((END-START))s $(grep -m1 -E '^  violation|INCONCLUSIVE|ENGINE-SKIPPED' "$OUT/$ID-$SEED.log" | cut -c1-200)"
    [ $RC -ne 0 ] && FAIL=1
  done
done
echo "logs in $OUT; any failure: $FAIL"
