#!/bin/bash
# Applies behaviour-preserving patches to /repo one after the other and runs EVERY quick check against each:
# all must stay silent (exit 0). Usage: try_benign.sh <patch> [<patch> ...]
set -u
cd /verif
for P in "$@"; do
  PATCH="$(readlink -f "$P")"
  if [ -n "$(git -C /repo status --porcelain)" ]; then echo "/repo is not clean"; exit 3; fi
  git -C /repo apply "$PATCH" || { echo "$PATCH: does not apply"; continue; }
  SCRATCH=$(mktemp -d /tmp/try-benign.XXXXXX)
  BAD=""
  for ID in C01 C02 C03 C04 C05 C06 C07 C08 C09 C10 C11 C12 C13 C14 C15 C16 C17; do
    VERIF_EVIDENCE_FILE="$SCRATCH/$ID.json" ./run_check.sh "$ID" quick > "$SCRATCH/$ID.log" 2>&1
    RC=$?
    if [ $RC -ne 0 ]; then BAD="$BAD $ID(exit=$RC: $(grep -m1 -E '^  violation:|INCONCLUSIVE' "$SCRATCH/$ID.log" | cut -c1-220))"; fi
  done
  git -C /repo checkout -- . ; git -C /repo clean -fdq -- src examples
  if [ -z "$BAD" ]; then echo "$PATCH: all 17 checks silent"; else echo "$PATCH: ALARMS:$BAD"; fi
  rm -rf "$SCRATCH"
done
