#!/bin/bash
# Applies a patch to /repo, runs the quick (or $TIER) checks of the given properties, reverts.
#   try_mutant.sh <patch.diff> <ID> [<ID> ...]
# Evidence of these runs goes to a scratch file, never to /verif/evidence.
set -u
PATCH="$(readlink -f "$1")"; shift
TIER="${TIER:-quick}"
cd /verif
if [ -n "$(git -C /repo status --porcelain)" ]; then echo "/repo is not clean"; exit 3; fi
git -C /repo apply "$PATCH" || { echo "patch does not apply"; exit 3; }
trap 'git -C /repo checkout -- . ; git -C /repo clean -fdq -- src examples' EXIT
SCRATCH=$(mktemp -d /tmp/try-mutant.XXXXXX)
for ID in "$@"; do
  START=$(date +%s)
  VERIF_EVIDENCE_FILE="$SCRATCH/$ID.json" ./run_check.sh "$ID" "$TIER" > "$SCRATCH/$ID.log" 2>&1
  RC=$?
  END=$(date +%s)
  FIRST=$(grep -m1 -E "^  violation:|INCONCLUSIVE" "$SCRATCH/$ID.log" | cut -c1-260)
  N=$(grep -c "^VIOLATION" "$SCRATCH/$ID.log")
  echo "$ID exit=$RC violations=$N time=$((END-START))s :: $FIRST"
done
rm -rf "$SCRATCH"
