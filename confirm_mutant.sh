#!/bin/bash
# Confirms a sub-agent's mutant in its scratch worktree (never in /repo):
#   suite passes with the patch, demo fails with it, demo passes without it.
#   confirm_mutant.sh <worktree> <k>     (files <worktree>/.mutants/m<k>.diff, m<k>_demo.rs)
set -u
W="$1"; K="$2"
export CARGO_NET_OFFLINE=true
cd "$W" || exit 3
git checkout -q -- . ; rm -rf tests
git apply --check ".mutants/m$K.diff" || { echo "m$K: patch does not apply to HEAD"; exit 3; }
git apply ".mutants/m$K.diff"
SUITE=$(cargo test --offline --lib 2>&1 | grep -E "^test result" | head -1)
mkdir -p tests; cp ".mutants/m${K}_demo.rs" "tests/m${K}_demo.rs"
cargo test --offline --test "m${K}_demo" > "$W/.mutants/confirm_with_$K.log" 2>&1; WITH=$?
git checkout -q -- src examples
cargo test --offline --test "m${K}_demo" > "$W/.mutants/confirm_without_$K.log" 2>&1; WITHOUT=$?
rm -rf tests
echo "m$K: suite-with-mutant: [$SUITE] demo-with-mutant exit=$WITH ($(grep -E '^test result' "$W/.mutants/confirm_with_$K.log" | head -1)) demo-on-HEAD exit=$WITHOUT ($(grep -E '^test result' "$W/.mutants/confirm_without_$K.log" | head -1))"
