#!/bin/bash
# Entry point of every MANIFEST command.
#   run_check.sh <ID> <quick|thorough>          run one property's check
#   run_check.sh <ID> --replay <path>           re-run one recorded violating case
# Exit: 0 held on everything explored, 1 violation (VIOLATION line printed), 2 inconclusive.
# Always rebuilds the harness against the current working tree of the repository
# (/repo, or $VERIF_REPO for scratch copies used when testing the checks themselves).
set -u
ID="${1:?property id}"
MODE="${2:-quick}"
VERIF_DIR="$(cd "$(dirname "$0")" && pwd)"
export VERIF_DIR
export CARGO_NET_OFFLINE=true
export CARGO_TERM_COLOR=never
REPO="${VERIF_REPO:-/repo}"
export VERIF_REPO="$REPO"
HARNESS="$VERIF_DIR/harness"
TARGET="${VERIF_TARGET:-$HARNESS/target}"
export CARGO_TARGET_DIR="$TARGET"
LOGDIR="$TARGET/logs"
mkdir -p "$LOGDIR" "$VERIF_DIR/evidence" "$VERIF_DIR/replays"

CONFIG=()
if [ "$REPO" != "/repo" ]; then
  CONFIG=(--config "paths=[\"$REPO\"]")
fi

build() { # profile-flag bin
  local flag="$1" bin="$2" log="$LOGDIR/build-$2-${1#--}.log"
  ( cd "$HARNESS" && cargo build --offline "${CONFIG[@]}" $flag --bin "$bin" ) >"$log" 2>&1
  local rc=$?
  if [ $rc -ne 0 ]; then
    echo "harness build failed ($bin $flag); last lines of $log:"
    tail -n 25 "$log"
    echo "INCONCLUSIVE property=$ID reason=harness-build-failed"
    exit 2
  fi
}

build --release verif
VERIF="$TARGET/release/verif"

# properties whose statement distinguishes build profiles also get the dev-profile binary
case "$ID" in
  C01|C07|C02|C03|C08|C09|C10|C04|C13|C14|C16)
    build --profile=dev verif
    export VERIF_DEBUG_EXE="$TARGET/debug/verif"
    ;;
esac
case "$ID" in
  C15)
    export VERIF_HARNESS_DIR="$HARNESS"
    ;;
esac

# Safety net: a change that makes the library allocate without end (an enumeration or a formatting loop that never
# stops while its output is collected) must end as a failed allocation inside the monitored process - which the
# supervisor sees as a crash of the case in flight - and not as the kernel's out-of-memory killer picking victims on
# the machine. Soft cap on the address space: 60 % of the machine's memory (the checks need a few GB at most).
if [ -z "${VERIF_NO_MEMCAP:-}" ]; then
  CAP_KB=$(awk '/^MemTotal:/ {print int($2 * 0.6)}' /proc/meminfo 2>/dev/null)
  if [ -n "$CAP_KB" ] && [ "$CAP_KB" -gt 8000000 ]; then
    ulimit -S -v "$CAP_KB" 2>/dev/null || true
  fi
fi

if [ "$MODE" = "--replay" ]; then
  exec "$VERIF" replay "${3:?replay path}"
fi
exec "$VERIF" check "$ID" --tier "$MODE"
