#!/usr/bin/env python3
"""save_seeded.py <ID> <k> <caught_by comma list or -> <missed_by comma list or -> <first violation line / note>
Copies a confirmed sub-agent mutant from /tmp/mut/<ID>/.mutants into /verif/seeded/<ID>-m<k>/ with meta.json."""
import json, os, shutil, sys
pid, k, caught, missed, note = sys.argv[1], sys.argv[2], sys.argv[3], sys.argv[4], sys.argv[5]
base = os.environ.get("MUT_BASE", "/tmp/mut")
tag = os.environ.get("MUT_TAG", "m")
src = f"{base}/{pid}/.mutants"
dst = f"/verif/seeded/{pid}-{tag}{k}"
os.makedirs(dst, exist_ok=True)
shutil.copy(f"{src}/m{k}.diff", f"{dst}/patch.diff")
shutil.copy(f"{src}/m{k}_demo.rs", f"{dst}/demo.rs")
desc = open(f"{src}/m{k}.md").read() if os.path.exists(f"{src}/m{k}.md") else ""
if desc:
    open(f"{dst}/description.md", "w").write(desc)
meta = {
    "breaks_property": pid,
    "origin": "independent sub-agent given only the property text and a scratch worktree of /repo HEAD" + (" (round 2: asked for changes that depend on history, far boundaries, numeric corners, build profile or two cooperating sites)" if tag == "r2m" else " (round 3: asked for changes in less obvious code sites: trait impls, constructors, accessors, card-layer conversions, other API paths)" if tag == "r3m" else " (round 4: asked for performance-motivated and clean-up rewrites: caches, fast paths, precomputed tables, data-structure swaps, iterator adaptors, merged functions)" if tag == "r4m" else " (round 5: asked for minimal edits of at most three changed lines: operators, boundary constants, indexes, swapped names, regex characters, table literals, dropped statements)" if tag == "r5m" else " (round 6: asked for changes that need a conjunction to manifest: two cooperating sites, a data-dependent corner with two conditions, a multi-step sequence, far positions or a narrow numeric band)" if tag == "r6m" else ""),
    "needs_to_manifest": (desc.split("\n\n")[0][:600] if desc else ""),
    "confirmed": {
        "how": "confirm_mutant.sh in the scratch worktree: cargo test --offline --lib with the patch; demo as tests/m_demo.rs with and without the patch",
        "suite_with_patch": "1229 passed; 0 failed",
        "demo_with_patch": "fails",
        "demo_on_head": "passes",
    },
    "checks_run": f"{os.environ.get('MUT_RUNNER', 'try_mutant.sh')} patch.diff {caught if caught != '-' else ''} {missed if missed != '-' else ''}".strip(),
    "caught_by_quick": [] if caught == "-" else caught.split(","),
    "missed_by_quick": [] if missed == "-" else missed.split(","),
    "observed": note,
}
json.dump(meta, open(f"{dst}/meta.json", "w"), indent=1)
print("saved", dst)
