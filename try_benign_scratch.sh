#!/bin/bash
# Like try_benign.sh, but against a SCRATCH COPY of the repository (never /repo), so that it can run beside other work:
#   try_benign_scratch.sh <scratch dir> "<check ids>" <patch> [<patch> ...]
# Applies each behaviour-preserving patch to the copy and runs the listed quick checks against it: all must exit 0.
set -u
BASE="$1"; IDS="$2"; shift 2
VERIF_DIR="$(cd "$(dirname "$0")" && pwd)"
SRC="${VERIF_REPO_SRC:-/repo}"
rm -rf "$BASE"; mkdir -p "$BASE"
rsync -a --exclude target --exclude .git "$SRC/" "$BASE/repo/"
( cd "$BASE/repo" && git init -q && git add -A && git -c user.email=v@v -c user.name=v commit -qm base )
export VERIF_REPO="$BASE/repo" VERIF_TARGET="$BASE/target" VERIF_SKIP_MIRI="${VERIF_SKIP_MIRI:-1}"
cd "$VERIF_DIR"
for P in "$@"; do
  PATCH="$(readlink -f "$P")"
  ( cd "$BASE/repo" && git checkout -q -- . && git clean -fdq && git apply "$PATCH" ) || { echo "$P: does not apply"; continue; }
  BAD=""
  for ID in $IDS; do
    VERIF_EVIDENCE_FILE="$BASE/$ID.json" ./run_check.sh "$ID" quick > "$BASE/$ID.log" 2>&1
    RC=$?
    if [ $RC -ne 0 ]; then BAD="$BAD $ID(exit=$RC: $(grep -m1 -E '^  violation:|INCONCLUSIVE' "$BASE/$ID.log" | cut -c1-220))"; fi
  done
  if [ -z "$BAD" ]; then echo "$P: silent on [$IDS]"; else echo "$P: ALARMS:$BAD"; fi
done
rm -rf "$BASE"
