// Passes the location of the repository under test to the harness, so that
// `examples/multi-thread/scope.rs` is compiled from the tree being checked.
use std::path::Path;

fn main() {
    let repo = std::env::var("VERIF_REPO").unwrap_or_else(|_| "/repo".to_string());
    let scope = Path::new(&repo).join("examples/multi-thread/scope.rs");
    println!("cargo:rustc-env=VERIF_REPO_DIR={}", repo);
    println!("cargo:rerun-if-env-changed=VERIF_REPO");
    println!("cargo:rerun-if-changed={}", scope.display());
    println!("cargo:rerun-if-changed=build.rs");
}
