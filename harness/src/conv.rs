//! Translation between espada's public value types and the oracles' plain card ids.
//!
//! id = rank_index * 4 + suit_index, rank_index 0 = ace .. 12 = deuce, suit_index
//! 0 = spade, 1 = heart, 2 = diamond, 3 = club: the order the properties name
//! ("ace to deuce and, within a rank, spade, heart, diamond, club").
//! Translation is done by matching on the public enum variants, never through
//! espada's own numeric/char conversions, so a defect in those cannot leak into an oracle.

use espada::card::{Card, Rank, Suit};
use espada::hand_range::{CardPair, HandRange};

pub const RANKS: [Rank; 13] = [
    Rank::Ace,
    Rank::King,
    Rank::Queen,
    Rank::Jack,
    Rank::Ten,
    Rank::Nine,
    Rank::Eight,
    Rank::Seven,
    Rank::Six,
    Rank::Five,
    Rank::Four,
    Rank::Trey,
    Rank::Deuce,
];
pub const SUITS: [Suit; 4] = [Suit::Spade, Suit::Heart, Suit::Diamond, Suit::Club];
pub const RANK_CHARS: [char; 13] = [
    'A', 'K', 'Q', 'J', 'T', '9', '8', '7', '6', '5', '4', '3', '2',
];
pub const SUIT_CHARS: [char; 4] = ['s', 'h', 'd', 'c'];

pub type Cid = u8;
/// (lower id, higher id)
pub type Pid = (u8, u8);

#[inline]
pub fn rank_index(r: Rank) -> u8 {
    match r {
        Rank::Ace => 0,
        Rank::King => 1,
        Rank::Queen => 2,
        Rank::Jack => 3,
        Rank::Ten => 4,
        Rank::Nine => 5,
        Rank::Eight => 6,
        Rank::Seven => 7,
        Rank::Six => 8,
        Rank::Five => 9,
        Rank::Four => 10,
        Rank::Trey => 11,
        Rank::Deuce => 12,
    }
}

#[inline]
pub fn suit_index(s: Suit) -> u8 {
    match s {
        Suit::Spade => 0,
        Suit::Heart => 1,
        Suit::Diamond => 2,
        Suit::Club => 3,
    }
}

#[inline]
pub fn cid(card: &Card) -> Cid {
    rank_index(*card.rank()) * 4 + suit_index(*card.suit())
}

#[inline]
pub fn card(id: Cid) -> Card {
    Card::new(RANKS[(id / 4) as usize], SUITS[(id % 4) as usize])
}

#[inline]
pub fn pid_of(pair: &CardPair) -> Pid {
    let a = cid(&pair[0]);
    let b = cid(&pair[1]);
    if a <= b {
        (a, b)
    } else {
        (b, a)
    }
}

#[inline]
pub fn pid(a: Cid, b: Cid) -> Pid {
    if a <= b {
        (a, b)
    } else {
        (b, a)
    }
}

#[inline]
pub fn card_pair(p: Pid) -> CardPair {
    CardPair::new(card(p.0), card(p.1))
}

pub fn card_text(id: Cid) -> String {
    let mut s = String::with_capacity(2);
    s.push(RANK_CHARS[(id / 4) as usize]);
    s.push(SUIT_CHARS[(id % 4) as usize]);
    s
}

pub fn pair_text(p: Pid) -> String {
    format!("{}{}", card_text(p.0), card_text(p.1))
}

pub fn cards_text(ids: &[Cid]) -> String {
    ids.iter().map(|c| card_text(*c)).collect::<Vec<_>>().join("")
}

pub fn parse_card_text(s: &str) -> Option<Cid> {
    let mut it = s.chars();
    let r = it.next()?;
    let u = it.next()?;
    if it.next().is_some() {
        return None;
    }
    let ri = RANK_CHARS.iter().position(|c| *c == r)?;
    let si = SUIT_CHARS.iter().position(|c| *c == u)?;
    Some((ri * 4 + si) as u8)
}

pub fn parse_cards_text(s: &str) -> Option<Vec<Cid>> {
    let chars: Vec<char> = s.chars().collect();
    if chars.len() % 2 != 0 {
        return None;
    }
    chars
        .chunks(2)
        .map(|c| parse_card_text(&c.iter().collect::<String>()))
        .collect()
}

/// All 1326 combos in id order.
pub fn all_pairs() -> Vec<Pid> {
    let mut v = Vec::with_capacity(1326);
    for a in 0..52u8 {
        for b in a + 1..52u8 {
            v.push((a, b));
        }
    }
    v
}

/// A weighted combo list in the oracles' representation.
pub type Combos = Vec<(Pid, f32)>;

/// Builds an espada range by collecting (the documented `FromIterator` route).
pub fn to_hand_range(combos: &[(Pid, f32)]) -> HandRange {
    combos.iter().map(|(p, w)| (card_pair(*p), *w)).collect()
}

/// Reads an espada range back, sorted by combo id.
pub fn from_hand_range(range: &HandRange) -> Combos {
    let mut v: Combos = range
        .card_pairs()
        .iter()
        .map(|(p, w)| (pid_of(p), *w))
        .collect();
    v.sort_by(|a, b| a.0.cmp(&b.0));
    v
}

/// `AsKs:0.5 AdKd:1` style text used in case descriptors and replay files.
pub fn combos_text(combos: &[(Pid, f32)]) -> String {
    combos
        .iter()
        .map(|(p, w)| format!("{}:{}", pair_text(*p), weight_text(*w)))
        .collect::<Vec<_>>()
        .join(" ")
}

/// Weight text that survives a round trip bit for bit (hex of the bits when the
/// decimal print would not).
pub fn weight_text(w: f32) -> String {
    let s = format!("{}", w);
    match s.parse::<f32>() {
        Ok(back) if back.to_bits() == w.to_bits() => s,
        _ => format!("bits{:08x}", w.to_bits()),
    }
}

pub fn parse_weight_text(s: &str) -> Option<f32> {
    if let Some(hex) = s.strip_prefix("bits") {
        u32::from_str_radix(hex, 16).ok().map(f32::from_bits)
    } else {
        s.parse::<f32>().ok()
    }
}

pub fn parse_combos_text(s: &str) -> Option<Combos> {
    let mut out = Vec::new();
    for item in s.split_whitespace() {
        let (p, w) = item.split_once(':')?;
        let ids = parse_cards_text(p)?;
        if ids.len() != 2 {
            return None;
        }
        out.push((pid(ids[0], ids[1]), parse_weight_text(w)?));
    }
    Some(out)
}
