//! Crash-isolated execution: a case is re-run in a child process (this same binary, or its
//! dev-profile build) on a thread with a chosen stack size. Stack overflow, allocation
//! failure and double panics abort the process and escape `catch_unwind`, so only a
//! parent process can observe them.

use crate::core::Report;
use crate::json::Json;
use std::io::Read;
use std::os::unix::process::ExitStatusExt;
use std::path::{Path, PathBuf};
use std::process::{Command, Stdio};
use std::sync::atomic::{AtomicU64, Ordering};
use std::time::{Duration, Instant};

#[derive(Debug)]
pub enum ChildOutcome {
    /// the child ran the case to the end and reported what its monitors saw
    Reported(Json),
    Crashed { signal: Option<i32>, code: Option<i32>, stack_overflow: bool, stderr_tail: String },
    Timeout { after_s: f64 },
    SpawnFailed(String),
}

static COUNTER: AtomicU64 = AtomicU64::new(0);

pub fn scratch_dir() -> PathBuf {
    let base = std::env::var("VERIF_SCRATCH")
        .map(PathBuf::from)
        .unwrap_or_else(|_| std::env::temp_dir().join(format!("verif-scratch-{}", std::process::id())));
    let _ = std::fs::create_dir_all(&base);
    base
}

pub fn cleanup_scratch() {
    if std::env::var("VERIF_SCRATCH").is_err() {
        let _ = std::fs::remove_dir_all(scratch_dir());
    }
}

/// Runs `exe child <property> <case file> --stack <bytes>` under a wall-clock watchdog.
pub fn run_case(exe: &Path, property: &str, case: &Json, stack_bytes: usize, timeout: Duration) -> ChildOutcome {
    let n = COUNTER.fetch_add(1, Ordering::Relaxed);
    let path = scratch_dir().join(format!("case-{}-{}.json", std::process::id(), n));
    if let Err(e) = std::fs::write(&path, case.to_string_compact()) {
        return ChildOutcome::SpawnFailed(format!("cannot write {}: {}", path.display(), e));
    }
    let mut child = match Command::new(exe)
        .arg("child")
        .arg(property)
        .arg(&path)
        .arg("--stack")
        .arg(stack_bytes.to_string())
        .env_remove("VERIF_JOURNAL")
        .env("VERIF_INNER", "1")
        .stdin(Stdio::null())
        .stdout(Stdio::piped())
        .stderr(Stdio::piped())
        .spawn()
    {
        Ok(c) => c,
        Err(e) => {
            let _ = std::fs::remove_file(&path);
            return ChildOutcome::SpawnFailed(format!("{}: {}", exe.display(), e));
        }
    };
    // drain the pipes on helper threads so a chatty child cannot block
    let mut out_pipe = child.stdout.take().unwrap();
    let mut err_pipe = child.stderr.take().unwrap();
    let out_t = std::thread::spawn(move || {
        let mut s = Vec::new();
        let _ = out_pipe.read_to_end(&mut s);
        String::from_utf8_lossy(&s).to_string()
    });
    let err_t = std::thread::spawn(move || {
        let mut s = Vec::new();
        let _ = err_pipe.read_to_end(&mut s);
        String::from_utf8_lossy(&s).to_string()
    });
    let start = Instant::now();
    let status = loop {
        match child.try_wait() {
            Ok(Some(st)) => break Some(st),
            Ok(None) => {
                if start.elapsed() > timeout {
                    let _ = child.kill();
                    let _ = child.wait();
                    break None;
                }
                std::thread::sleep(Duration::from_millis(if start.elapsed().as_millis() < 200 { 2 } else { 20 }));
            }
            Err(_) => break None,
        }
    };
    let stdout = out_t.join().unwrap_or_default();
    let stderr = err_t.join().unwrap_or_default();
    let _ = std::fs::remove_file(&path);
    let status = match status {
        Some(s) => s,
        None => return ChildOutcome::Timeout { after_s: start.elapsed().as_secs_f64() },
    };
    if status.success() {
        for line in stdout.lines() {
            if let Some(doc) = line.strip_prefix("CHILD-REPORT ") {
                if let Ok(j) = Json::parse(doc) {
                    return ChildOutcome::Reported(j);
                }
            }
        }
    }
    let tail: String = {
        let lines: Vec<&str> = stderr.lines().collect();
        lines[lines.len().saturating_sub(6)..].join(" | ")
    };
    ChildOutcome::Crashed {
        signal: status.signal(),
        code: status.code(),
        stack_overflow: stderr.contains("has overflowed its stack") || stderr.contains("stack overflow"),
        stderr_tail: tail.chars().take(600).collect(),
    }
}

pub struct CmdResult {
    pub code: Option<i32>,
    pub signal: Option<i32>,
    pub timed_out: bool,
    pub stdout: String,
    pub stderr: String,
    pub wall_s: f64,
}

/// Runs an external command (cargo, a sanitizer build of the harness) under a watchdog.
pub fn run_cmd(program: &str, args: &[String], envs: &[(String, String)], cwd: Option<&Path>, timeout: Duration) -> Result<CmdResult, String> {
    let mut cmd = Command::new(program);
    cmd.args(args).stdin(Stdio::null()).stdout(Stdio::piped()).stderr(Stdio::piped());
    for (k, v) in envs {
        cmd.env(k, v);
    }
    cmd.env_remove("VERIF_JOURNAL");
    if let Some(d) = cwd {
        cmd.current_dir(d);
    }
    let mut child = cmd.spawn().map_err(|e| format!("{}: {}", program, e))?;
    let mut out_pipe = child.stdout.take().unwrap();
    let mut err_pipe = child.stderr.take().unwrap();
    let out_t = std::thread::spawn(move || {
        let mut s = Vec::new();
        let _ = out_pipe.read_to_end(&mut s);
        String::from_utf8_lossy(&s).to_string()
    });
    let err_t = std::thread::spawn(move || {
        let mut s = Vec::new();
        let _ = err_pipe.read_to_end(&mut s);
        String::from_utf8_lossy(&s).to_string()
    });
    let start = Instant::now();
    let mut timed_out = false;
    let status = loop {
        match child.try_wait() {
            Ok(Some(st)) => break Some(st),
            Ok(None) => {
                if start.elapsed() > timeout {
                    let _ = child.kill();
                    let _ = child.wait();
                    timed_out = true;
                    break None;
                }
                std::thread::sleep(Duration::from_millis(50));
            }
            Err(_) => break None,
        }
    };
    let stdout = out_t.join().unwrap_or_default();
    let stderr = err_t.join().unwrap_or_default();
    Ok(CmdResult {
        code: status.and_then(|s| s.code()),
        signal: status.and_then(|s| s.signal()),
        timed_out,
        stdout,
        stderr,
        wall_s: start.elapsed().as_secs_f64(),
    })
}

/// Serialises what a child observed.
pub fn report_to_json(r: &Report) -> Json {
    Json::obj()
        .set("evaluations", Json::Int(r.evaluations as i128))
        .set("violation_count", Json::Int(r.violation_count as i128))
        .set(
            "violations",
            Json::arr(r.violations.iter().map(|v| {
                Json::obj()
                    .set("signature", Json::str(v.signature.clone()))
                    .set("what", Json::str(v.what.clone()))
                    .set("case", v.case.clone())
            })),
        )
        .set("inconclusive", Json::strs(r.inconclusive.clone()))
        .set("extra", r.extra.clone())
}

/// Folds a child's report into the parent's, tagging signatures with the child's profile.
pub fn merge_child_report(into: &mut Report, doc: &Json, tag: &str) {
    into.evaluations += doc.get("evaluations").and_then(|v| v.as_i128()).unwrap_or(0) as u64;
    if let Some(vs) = doc.get("violations").and_then(|v| v.as_arr()) {
        for v in vs {
            let sig = v.get("signature").and_then(|s| s.as_str()).unwrap_or("?");
            let what = v.get("what").and_then(|s| s.as_str()).unwrap_or("?");
            let case = v.get("case").cloned().unwrap_or(Json::Null);
            into.violate(format!("{}{}", tag, sig), format!("[{}] {}", tag.trim_end_matches(':'), what), case);
        }
    }
    if let Some(inc) = doc.get("inconclusive").and_then(|v| v.as_arr()) {
        for i in inc {
            if let Some(s) = i.as_str() {
                into.inconclusive(format!("{}{}", tag, s));
            }
        }
    }
    if let Some(Json::Obj(items)) = doc.get("extra") {
        for (k, v) in items {
            if let Json::Int(n) = v {
                if k.starts_with("max_") {
                    into.max(&format!("{}", k), *n as u64);
                } else {
                    into.count(k, *n as u64);
                }
            }
        }
    }
}

// ---------------------------------------------------------------- journal

use std::io::Write;
use std::sync::Mutex;

static JOURNAL: Mutex<Option<std::fs::File>> = Mutex::new(None);

pub fn journal_open() {
    if let Ok(path) = std::env::var("VERIF_JOURNAL") {
        if let Ok(f) = std::fs::OpenOptions::new().create(true).append(true).open(path) {
            *JOURNAL.lock().unwrap() = Some(f);
        }
    }
}

/// Marks a case as in flight. A crash of the whole process leaves it open in the journal,
/// which lets the supervising parent re-run exactly the in-flight cases in isolation.
pub fn journal_begin(key: &str, case: &Json) {
    if let Some(f) = JOURNAL.lock().unwrap().as_mut() {
        let _ = writeln!(f, "BEGIN\t{}\t{}", key, case.to_string_compact());
        let _ = f.flush();
    }
}

pub fn journal_end(key: &str) {
    if let Some(f) = JOURNAL.lock().unwrap().as_mut() {
        let _ = writeln!(f, "END\t{}", key);
        let _ = f.flush();
    }
}

/// (finished cases, in-flight cases) recorded in a journal file.
pub fn journal_read(path: &Path) -> (u64, Vec<(String, Json)>) {
    let text = std::fs::read_to_string(path).unwrap_or_default();
    let mut open: Vec<(String, Json)> = Vec::new();
    let mut finished = 0u64;
    for line in text.lines() {
        let mut parts = line.splitn(3, '\t');
        match (parts.next(), parts.next(), parts.next()) {
            (Some("BEGIN"), Some(key), Some(doc)) => {
                if let Ok(j) = Json::parse(doc) {
                    open.push((key.to_string(), j));
                }
            }
            (Some("END"), Some(key), _) => {
                if let Some(i) = open.iter().position(|(k, _)| k == key) {
                    open.remove(i);
                    finished += 1;
                }
            }
            _ => {}
        }
    }
    (finished, open)
}
