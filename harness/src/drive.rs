//! Drivers: run the real espada evaluator under observation (boundary view + hook sink).

use crate::conv::{card, cid, pid_of, to_hand_range, Pid};
use crate::refmodel::enumerate::{deal_hash, deck49, Bucket, Config};
use crate::refmodel::scope::{linear, POSITIONS};
use espada::evaluator::{FlopExhaustiveEvaluator, Showdown};
use espada::hand_range::HandRange;
use espada::verif_hooks::{self, Event};
use std::cell::{Cell, RefCell};
use std::collections::HashMap;
use std::rc::Rc;

pub const BOUND_PANIC: &str = "VERIF-BOUND-EXCEEDED";

// ---------------------------------------------------------------- non-termination guard
//
// Two monitors over the `on_deal` events make an enumerator that stops advancing a recorded violation instead of a
// watchdog timeout (or an out-of-memory kill, when its showdowns are being collected):
//
// * cycle detection (Brent) over the hooked odometer state (turn, river, indexes). The enumerator is deterministic
//   in that state, so a state considered twice by one evaluator is an infinite loop, and an enumeration that never
//   repeats a state ends because the state space is finite. No assumption on the order of enumeration or on scopes.
//   Events carry no evaluator identity, so the driver says which evaluator it is about to step (`stepping(label)`)
//   wherever several are alive on one thread; everywhere else label 0 is used and every evaluator the harness builds
//   (`evaluator()`, or `allow()` next to a direct construction) restarts the detector of the current label.
// * a budget as a backstop for state the hook does not show: a correct enumeration considers exactly
//   positions-in-scope x prod(len) deals, so every evaluator built adds 1176 x prod(max(len,1)) + 16 to its thread's budget
//   and every considered deal takes one away. It only over-approximates (scoped and abandoned evaluators leave their
//   allowance behind; `reset_budget()` between cases keeps it tight), so it cannot fire on a correct enumerator.
//
// Every sink calls `guard_tick` for every considered deal; a thread with no monitor installed gets a sink that does
// nothing else. Both monitors panic with `BOUND_PANIC` inside `next()`.

thread_local! {
    static BUDGET: Cell<u64> = const { Cell::new(0) };
    static GUARD_ON: Cell<bool> = const { Cell::new(false) };
    static LABEL: Cell<usize> = const { Cell::new(0) };
    static CYCLES: RefCell<Vec<Option<Cycle>>> = const { RefCell::new(Vec::new()) };
}

struct Cycle {
    tortoise: (usize, usize, Vec<usize>),
    steps: u64,
    next_snapshot: u64,
}

/// To be called where an evaluator over `ranges` is built: adds its allowance to this thread's budget and restarts
/// the cycle detector of the current label.
pub fn allow(ranges: &Vec<HandRange>) {
    let mut product: u128 = 1;
    for r in ranges {
        // an empty range counts as one entry: a correct evaluator considers nothing then, but one that drops the empty
        // seat and deals the others is advancing all the same, and must be judged by what it yields, not by this guard
        product = product.saturating_mul(r.card_pairs().len().max(1) as u128);
    }
    let add = product.saturating_mul(1176).saturating_add(16);
    let add = if add > u64::MAX as u128 { u64::MAX } else { add as u64 };
    BUDGET.with(|b| b.set(b.get().saturating_add(add)));
    GUARD_ON.with(|b| b.set(true));
    let label = LABEL.with(|l| l.get());
    CYCLES.with(|c| {
        let mut c = c.borrow_mut();
        if c.len() <= label {
            c.resize_with(label + 1, || None);
        }
        c[label] = Some(Cycle { tortoise: (0, 0, Vec::new()), steps: 0, next_snapshot: 1 });
    });
    ensure_guard_sink();
}

/// Forgets what earlier evaluators on this thread left unused (call between cases, when none is alive).
pub fn reset_budget() {
    BUDGET.with(|b| b.set(0));
}

/// The driver is about to build or step the evaluator it calls `label` (several live evaluators on one thread).
#[inline]
pub fn stepping(label: usize) {
    LABEL.with(|l| l.set(label));
}

fn ensure_guard_sink() {
    if !verif_hooks::enabled() {
        verif_hooks::set_sink(Some(Box::new(|e: &Event| {
            if let Event::Deal { turn_index, river_index, player_indexes, .. } = e {
                guard_tick(*turn_index, *river_index, player_indexes);
            }
        })));
    }
}

/// To be called by every sink for every considered deal.
#[inline]
pub fn guard_tick(turn: usize, river: usize, indexes: &[usize]) {
    if !GUARD_ON.with(|b| b.get()) {
        return;
    }
    let left = BUDGET.with(|b| b.get());
    if left == 0 {
        panic!("{}: more deals considered than 1176 x prod(len) + 16 for every evaluator built on this thread; the enumeration does not advance (at turn {} river {} indexes {:?})", BOUND_PANIC, turn, river, indexes);
    }
    if left != u64::MAX {
        BUDGET.with(|b| b.set(left - 1));
    }
    let label = LABEL.with(|l| l.get());
    let repeated = CYCLES.with(|c| {
        let mut c = c.borrow_mut();
        if let Some(Some(c)) = c.get_mut(label) {
            if c.steps > 0 && c.tortoise.0 == turn && c.tortoise.1 == river && c.tortoise.2.as_slice() == indexes {
                return true;
            }
            c.steps += 1;
            if c.steps == c.next_snapshot {
                c.tortoise.0 = turn;
                c.tortoise.1 = river;
                c.tortoise.2.clear();
                c.tortoise.2.extend_from_slice(indexes);
                c.next_snapshot *= 2;
            }
        }
        false
    });
    if repeated {
        panic!("{}: the odometer state (turn {} river {} indexes {:?}) is considered a second time; the enumeration does not advance", BOUND_PANIC, turn, river, indexes);
    }
}

/// What the hook sink saw while one evaluator was driven.
#[derive(Clone, Debug, Default)]
pub struct HookStats {
    pub deals_considered: u64,
    pub deals_flagged_materialized: u64,
    pub table_lookups_flush: u64,
    pub table_lookups_rainbow: u64,
    pub max_player_index: usize,
    pub max_depth: u32,
    pub min_stack_addr: usize,
    pub max_stack_addr: usize,
    /// deals considered since the driver last received `Some` from `next()`
    pub since_last_yield: u64,
    pub max_blocked_run: u64,
    pub index_out_of_scope: u64,
    pub bound: u64,
}

impl HookStats {
    pub fn stack_span(&self) -> usize {
        if self.min_stack_addr == 0 {
            0
        } else {
            self.max_stack_addr - self.min_stack_addr
        }
    }
}

/// Installs a sink on this thread that accumulates `HookStats`; panics with
/// `BOUND_PANIC` when more than `bound` deals are considered (logical non-termination).
pub fn install_stats_sink(bound: u64) -> Rc<RefCell<HookStats>> {
    let stats = Rc::new(RefCell::new(HookStats { bound, ..Default::default() }));
    let s = stats.clone();
    verif_hooks::set_sink(Some(Box::new(move |e: &Event| {
        let mut st = s.borrow_mut();
        match e {
            Event::TableLookup { flush, .. } => {
                if *flush {
                    st.table_lookups_flush += 1;
                } else {
                    st.table_lookups_rainbow += 1;
                }
            }
            Event::Deal { turn_index, river_index, player_indexes, materialized, depth, stack_addr } => {
                guard_tick(*turn_index, *river_index, player_indexes);
                st.deals_considered += 1;
                st.since_last_yield += 1;
                if st.since_last_yield > st.max_blocked_run {
                    st.max_blocked_run = st.since_last_yield;
                }
                if *materialized {
                    st.deals_flagged_materialized += 1;
                }
                for i in player_indexes.iter() {
                    if *i > st.max_player_index {
                        st.max_player_index = *i;
                    }
                }
                if *depth > st.max_depth {
                    st.max_depth = *depth;
                }
                if st.min_stack_addr == 0 || *stack_addr < st.min_stack_addr {
                    st.min_stack_addr = *stack_addr;
                }
                if *stack_addr > st.max_stack_addr {
                    st.max_stack_addr = *stack_addr;
                }
                if st.bound > 0 && st.deals_considered > st.bound {
                    let n = st.deals_considered;
                    drop(st);
                    panic!("{} after {} considered deals", BOUND_PANIC, n);
                }
            }
        }
    })));
    stats
}

pub fn remove_sink() {
    verif_hooks::set_sink(None);
    if GUARD_ON.with(|b| b.get()) {
        ensure_guard_sink();
    }
}

pub fn board_of(flop: &[u8; 3]) -> [Option<espada::card::Card>; 5] {
    [Some(card(flop[0])), Some(card(flop[1])), Some(card(flop[2])), None, None]
}

pub fn hand_ranges(cfg: &Config) -> Vec<HandRange> {
    cfg.ranges.iter().map(|r| to_hand_range(r)).collect()
}

pub type Scope = ((u8, u8), (u8, u8));

pub fn evaluator(cfg: &Config, ranges: &Vec<HandRange>, scope: Option<Scope>) -> FlopExhaustiveEvaluator {
    allow(ranges);
    let mut e = FlopExhaustiveEvaluator::new(&board_of(&cfg.flop), ranges);
    if let Some((from, to)) = scope {
        e.scope(from.0, from.1, to.0, to.1);
    }
    e
}

/// Plain view of one showdown in the oracles' representation.
#[derive(Clone, Debug, PartialEq)]
pub struct View {
    pub board: [u8; 5],
    pub combos: Vec<Pid>,
    pub prob: f32,
}

pub fn view(sd: &Showdown) -> View {
    let b = sd.board();
    View {
        board: [cid(&b[0]), cid(&b[1]), cid(&b[2]), cid(&b[3]), cid(&b[4])],
        combos: sd.players().iter().map(|p| pid_of(&p.hole_cards())).collect(),
        prob: sd.probability(),
    }
}

pub fn view_text(v: &View) -> String {
    format!(
        "board={} combos={} prob={}",
        crate::conv::cards_text(&v.board),
        v.combos.iter().map(|p| crate::conv::pair_text(*p)).collect::<Vec<_>>().join("/"),
        v.prob
    )
}

/// Boundary monitor for one enumeration: checks every yielded showdown against the
/// deal rules locally and fingerprints it into its board position's bucket.
pub struct EnumMonitor {
    pub flop: [u8; 3],
    pub deck: Vec<u8>,
    deck_index: [u8; 52],
    range_maps: Vec<HashMap<Pid, f32>>,
    pub buckets: Vec<Bucket>,
    pub yielded: u64,
    pub river_before_turn: u64,
    pub interplayer_overlap_possible: bool,
    pub first_problem: Option<(String, String)>,
    pub problems: u64,
}

impl EnumMonitor {
    pub fn new(cfg: &Config) -> EnumMonitor {
        let deck = deck49(&cfg.flop);
        let mut deck_index = [255u8; 52];
        for (i, c) in deck.iter().enumerate() {
            deck_index[*c as usize] = i as u8;
        }
        EnumMonitor {
            flop: cfg.flop,
            deck,
            deck_index,
            range_maps: cfg.ranges.iter().map(|r| r.iter().cloned().collect()).collect(),
            buckets: vec![Bucket::default(); POSITIONS],
            yielded: 0,
            river_before_turn: 0,
            interplayer_overlap_possible: false,
            first_problem: None,
            problems: 0,
        }
    }

    fn problem(&mut self, kind: &str, text: String) {
        self.problems += 1;
        if self.first_problem.is_none() {
            self.first_problem = Some((kind.to_string(), text));
        }
    }

    /// Position (deck indexes, turn < river) of a showdown's board, if its last two
    /// cards are two different unseen cards.
    pub fn position_of(&self, v: &View) -> Option<(u8, u8)> {
        let t = self.deck_index[v.board[3] as usize];
        let r = self.deck_index[v.board[4] as usize];
        if t == 255 || r == 255 || t == r {
            return None;
        }
        Some(if t < r { (t, r) } else { (r, t) })
    }

    pub fn observe(&mut self, sd: &Showdown) -> View {
        let v = view(sd);
        self.yielded += 1;
        let text = || view_text(&v);
        if v.board[0..3] != self.flop {
            self.problem("flop-altered", format!("flop not carried in the given order: {}", text()));
        }
        let pos = self.position_of(&v);
        if pos.is_none() {
            self.problem("bad-board", format!("turn/river are not two different unseen cards: {}", text()));
        }
        if let Some(_) = pos {
            if self.deck_index[v.board[3] as usize] > self.deck_index[v.board[4] as usize] {
                self.river_before_turn += 1;
            }
        }
        if v.combos.len() != self.range_maps.len() {
            self.problem("player-count", format!("{} players for {} ranges: {}", v.combos.len(), self.range_maps.len(), text()));
        }
        let mut mask: u64 = 0;
        let mut repeated = false;
        for c in v.board {
            if mask & (1 << c) != 0 {
                repeated = true;
            }
            mask |= 1 << c;
        }
        let mut expected = 1.0f64;
        let mut all_one = true;
        let mut any_zero = false;
        let mut weights: Vec<f32> = Vec::with_capacity(v.combos.len());
        for (i, p) in v.combos.iter().enumerate() {
            for c in [p.0, p.1] {
                if mask & (1 << c) != 0 {
                    repeated = true;
                }
                mask |= 1 << c;
            }
            if p.0 == p.1 {
                repeated = true;
            }
            match self.range_maps.get(i).and_then(|m| m.get(p)) {
                Some(w) => {
                    weights.push(*w);
                    expected *= *w as f64;
                    if *w != 1.0 {
                        all_one = false;
                    }
                    if *w == 0.0 {
                        any_zero = true;
                    }
                }
                None => {
                    self.problem("foreign-combo", format!("player {} holds a combo outside its range: {}", i, text()));
                }
            }
        }
        if repeated {
            self.problem("repeated-card", format!("a card appears twice: {}", text()));
        }
        let got = v.prob as f64;
        let ok = if all_one {
            v.prob == 1.0
        } else if any_zero {
            v.prob == 0.0
        } else {
            // up to four players: the probability must be one of the f32 values some order and grouping
            // of the multiplications gives (exactly w for one player, w0*w1 for two); beyond: relative 1e-6
            let mut left_to_right = 1.0f32;
            for w in &weights {
                left_to_right *= *w;
            }
            // ... or the exact product rounded once (an implementation multiplying in f64 and narrowing at the end)
            let rounded_once = expected as f32;
            if v.prob.to_bits() == left_to_right.to_bits() || v.prob.to_bits() == rounded_once.to_bits() {
                true
            } else {
                match crate::refmodel::enumerate::possible_products(&weights) {
                    Some(set) if weights.len() == v.combos.len() => set.contains(&v.prob.to_bits()),
                    _ => (got - expected).abs() <= 1e-6 * expected.abs() + 1e-44,
                }
            }
        };
        if !ok {
            self.problem("probability", format!("probability {} ({:08x}) but the weights {:?} multiply to {}: {}", v.prob, v.prob.to_bits(), weights, expected, text()));
        }
        // per-player views must repeat the same board and hole cards
        for (i, pl) in sd.players().iter().enumerate() {
            let cards = pl.cards();
            let b = pl.board();
            let mut ok = true;
            for k in 0..5 {
                if cid(&cards[k]) != v.board[k] || cid(&b[k]) != v.board[k] {
                    ok = false;
                }
            }
            let h = pid_of(&pl.hole_cards());
            if crate::conv::pid(cid(&cards[5]), cid(&cards[6])) != h {
                ok = false;
            }
            if !ok {
                self.problem("player-view", format!("player {} reports cards that differ from the showdown's board/hole cards: {}", i, text()));
            }
        }
        if let Some(p) = pos {
            self.buckets[linear(p)].add(deal_hash(v.board[3], v.board[4], &v.combos));
        }
        v
    }
}

/// All showdowns an evaluator yields, as views (small cases only).
pub fn collect_views(cfg: &Config, scope: Option<Scope>) -> Vec<View> {
    let ranges = hand_ranges(cfg);
    evaluator(cfg, &ranges, scope).into_iter().map(|sd| view(&sd)).collect()
}

/// Compact, comparable trace of everything a showdown exposes.
#[derive(Clone, Debug, PartialEq, Eq, Hash)]
pub struct TraceKey {
    pub board: [u8; 5],
    pub players: Vec<(u8, u8, u16, bool)>,
    pub prob_bits: u32,
    pub winner_len: u8,
}

pub fn trace_key(sd: &Showdown) -> TraceKey {
    let b = sd.board();
    TraceKey {
        board: [cid(&b[0]), cid(&b[1]), cid(&b[2]), cid(&b[3]), cid(&b[4])],
        players: sd
            .players()
            .iter()
            .map(|p| {
                let h = pid_of(&p.hole_cards());
                (h.0, h.1, p.hand().power_index(), p.is_winner())
            })
            .collect(),
        prob_bits: sd.probability().to_bits(),
        winner_len: sd.winner_len(),
    }
}
