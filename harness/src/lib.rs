//! Runtime-monitoring harness for axross/espada (see /verif/DESIGN.md).

pub mod checks;
pub mod child;
pub mod conv;
pub mod core;
pub mod drive;
pub mod json;
pub mod refmodel;
pub mod util;
pub mod workload;

/// The example's work splitter, compiled from the repository under test.
#[allow(dead_code)]
pub mod example_scope {
    include!(concat!(env!("VERIF_REPO_DIR"), "/examples/multi-thread/scope.rs"));
}
