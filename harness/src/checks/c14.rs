//! C14 — a hole-card pair is an unordered pair with one canonical form. Exhaustive.

use crate::conv::{card, card_text, cid, pair_text, pid};
use crate::core::{Ctx, Report};
use crate::json::Json;
use crate::util::{catch, hash_str};
use espada::hand_range::{CardPair, HandRange};
use std::collections::hash_map::DefaultHasher;
use std::collections::HashMap;
use std::hash::{BuildHasher, Hash, Hasher};

fn std_hash<T: Hash>(t: &T) -> u64 {
    let mut h = DefaultHasher::new();
    t.hash(&mut h);
    h.finish()
}

fn fx_hash<T: Hash>(t: &T) -> u64 {
    let mut h = fxhash::FxBuildHasher::default().build_hasher();
    t.hash(&mut h);
    h.finish()
}

pub fn run(ctx: &Ctx) -> Report {
    let mut report = relations();
    if !ctx.in_child {
        concurrent_parse_stress(ctx, &mut report);
        dev_pass(ctx, &mut report);
        super::firstuse::run_children(ctx, "pairs", 24, &mut report);
    }
    report
}

/// Many threads parsing different pair texts at once; every result against the built pair.
fn concurrent_parse_stress(ctx: &Ctx, report: &mut Report) {
    let threads = crate::util::threads().max(2);
    let per_thread = ctx.tier.pick(150_000u64, 1_500_000);
    let bad: Vec<Vec<String>> = std::thread::scope(|scope| {
        let mut handles = Vec::new();
        for t in 0..threads {
            let seed = ctx.seed;
            handles.push(scope.spawn(move || {
                let mut rng = crate::util::Rng::derive(seed, "c14-concurrent", t as u64);
                let mut bad: Vec<String> = Vec::new();
                // a small pool of texts so that threads keep meeting on the same and on different texts
                let pool: Vec<(u8, u8)> = (0..64).map(|_| {
                    let v = rng.sample(52, 2);
                    (v[0] as u8, v[1] as u8)
                }).collect();
                for _ in 0..per_thread {
                    let (a, b) = pool[rng.usize_below(pool.len())];
                    let text = format!("{}{}", card_text(a), card_text(b));
                    let (lo, hi) = pid(a, b);
                    match text.parse::<CardPair>() {
                        Ok(p) if cid(&p[0]) == lo && cid(&p[1]) == hi => {}
                        other => {
                            if bad.len() < 4 {
                                bad.push(format!("'{}' parses to {:?}", text, other));
                            }
                        }
                    }
                }
                bad
            }));
        }
        handles.into_iter().map(|h| h.join().unwrap_or_else(|_| vec!["a parsing thread panicked".to_string()])).collect()
    });
    report.evaluations += per_thread * threads as u64;
    report.set("concurrent_parses", Json::Int((per_thread * threads as u64) as i128));
    for b in bad.into_iter().flatten() {
        report.violate(
            format!("concurrent-parse:{}", crate::util::hash_str(&b) % 100_000),
            format!("while {} threads parse pair texts concurrently: {}", threads, b),
            Json::obj().set("kind", Json::str("c14")).set("relation", Json::str("concurrent-parse")),
        );
    }
}

fn dev_pass(ctx: &Ctx, report: &mut Report) {
    use crate::child::{self, ChildOutcome};
    let exe = match Ctx::exe_for("debug") {
        Some(e) => e,
        None => {
            report.inconclusive("no dev-profile binary available (VERIF_DEBUG_EXE not set)");
            return;
        }
    };
    let case = Json::obj().set("kind", Json::str("dev-all"));
    match child::run_case(&exe, &ctx.id, &case, 8 << 20, std::time::Duration::from_secs(600)) {
        ChildOutcome::Reported(doc) => {
            let ev = report.evaluations;
            child::merge_child_report(report, &doc, "debug:");
            report.evaluations = ev;
            report.count("dev_profile_pass", 1);
        }
        ChildOutcome::Crashed { signal, code, stack_overflow, stderr_tail } => report.violate(
            "debug:crash".to_string(),
            format!("[dev profile] the relation sweep died (signal {:?}, code {:?}, stack overflow {}): {}", signal, code, stack_overflow, stderr_tail),
            case,
        ),
        ChildOutcome::Timeout { after_s } => report.inconclusive(format!("dev-profile pass timed out after {:.0}s", after_s)),
        ChildOutcome::SpawnFailed(e) => report.inconclusive(format!("dev-profile pass: {}", e)),
    }
    child::cleanup_scratch();
}

fn relations() -> Report {
    let mut report = Report::new();
    report.rule = "all 52x51 ordered pairs of distinct cards, each through every relation of the property (either-order equality, std and Fx hash equality, canonical first element, text round trip, both text orders, map keyed in both orders); distinct = distinct (relation, ordered pair)".into();
    report.exhaustive = Some(true);
    let check = |report: &mut Report, relation: &str, input: &str, ok: bool, detail: &dyn Fn() -> String| {
        report.evaluations += 1;
        report.note_distinct(hash_str(&format!("{}|{}", relation, input)));
        report.count(&format!("relation_{}", relation), 1);
        if !ok {
            report.violate(
                format!("{}:{}", relation, input),
                format!("{} fails for {}: {}", relation, input, detail()),
                Json::obj().set("kind", Json::str("c14")).set("relation", Json::str(relation)).set("input", Json::str(input)),
            );
        }
    };

    let mut map_std: HashMap<CardPair, u32> = HashMap::new();
    let mut map_parsed: HashMap<CardPair, u32> = HashMap::new();
    let mut both_orders: Vec<(CardPair, f32)> = Vec::new();
    let mut canon_hashes: HashMap<u64, (u8, u8)> = HashMap::new();
    for a in 0..52u8 {
        for b in 0..52u8 {
            if a == b {
                continue;
            }
            let name = format!("{}{}", card_text(a), card_text(b));
            let built = catch(|| (CardPair::new(card(a), card(b)), CardPair::new(card(b), card(a))));
            let (p, q) = match built {
                Ok(v) => v,
                Err(e) => {
                    check(&mut report, "construct", &name, false, &|| format!("panic {}", e));
                    continue;
                }
            };
            check(&mut report, "either_order_equal", &name, p == q && !(p != q), &|| format!("{:?} vs {:?}", p, q));
            check(&mut report, "either_order_equal_hashes", &name, std_hash(&p) == std_hash(&q) && fx_hash(&p) == fx_hash(&q), &|| format!("std {:x}/{:x} fx {:x}/{:x}", std_hash(&p), std_hash(&q), fx_hash(&p), fx_hash(&q)));
            let (lo, hi) = pid(a, b);
            check(&mut report, "first_is_lower_card", &name, cid(&p[0]) == lo && cid(&p[1]) == hi && p[0] < p[1], &|| format!("[{}, {}]", p[0], p[1]));
            let t = catch(|| p.to_string()).unwrap_or_else(|e| format!("<panic {}>", e));
            check(&mut report, "text_is_canonical", &name, t == pair_text((lo, hi)), &|| t.clone());
            let back = catch(|| t.parse::<CardPair>());
            check(&mut report, "text_round_trip", &name, matches!(&back, Ok(Ok(x)) if *x == p), &|| format!("'{}' parses to {:?}", t, back));
            let written = format!("{}{}", card_text(a), card_text(b));
            let swapped = format!("{}{}", card_text(b), card_text(a));
            let r1 = catch(|| written.parse::<CardPair>());
            let r2 = catch(|| swapped.parse::<CardPair>());
            let ok = matches!((&r1, &r2), (Ok(Ok(x)), Ok(Ok(y))) if x == y && *x == p && *y == p && p == *x);
            check(&mut report, "both_text_orders_parse_equal", &name, ok, &|| format!("{:?} / {:?}", r1, r2));
            // the same text again, twice in a row on this thread: still the same canonical value
            let again = catch(|| (swapped.parse::<CardPair>(), swapped.parse::<CardPair>(), written.parse::<CardPair>()));
            let ok = matches!(&again, Ok((Ok(x), Ok(y), Ok(z))) if [x, y, z].iter().all(|v| **v == p && cid(&v[0]) == lo && cid(&v[1]) == hi && std_hash(*v) == std_hash(&p)));
            check(&mut report, "repeated_parse_stays_canonical", &name, ok, &|| format!("{:?}", again));
            // a parsed pair is the same canonical value as the built one: hashes, element order, text
            if let Ok(Ok(x)) = &r1 {
                let x = *x;
                let facts = catch(|| (std_hash(&x), fx_hash(&x), cid(&x[0]), cid(&x[1]), x.to_string()));
                let ok = matches!(&facts, Ok((sh, fh, c0, c1, t)) if *sh == std_hash(&p) && *fh == fx_hash(&p) && *c0 == lo && *c1 == hi && *t == pair_text((lo, hi)));
                check(&mut report, "parsed_pair_is_canonical", &name, ok, &|| format!("'{}' parses to {:?}", written, facts));
                *map_parsed.entry(x).or_insert(0) += 1;
            }
            *map_std.entry(p).or_insert(0) += 1;
            both_orders.push((p, 1.0));
            if a < b {
                // different combos must stay different values (no accidental identification)
                if let Some(prev) = canon_hashes.insert(std_hash(&p), (a, b)) {
                    report.count("std_hash_collisions_between_different_pairs", 1);
                    let _ = prev;
                }
            }
        }
    }
    check(&mut report, "map_keyed_in_both_orders_has_1326_entries", "std HashMap", map_std.len() == 1326 && map_std.values().all(|n| *n == 2), &|| format!("{} keys", map_std.len()));
    check(&mut report, "map_keyed_in_both_orders_has_1326_entries", "std HashMap of parsed pairs", map_parsed.len() == 1326 && map_parsed.values().all(|n| *n == 2), &|| format!("{} keys", map_parsed.len()));
    // a range written with every combo in both card orders holds each combo once, with the later weight
    let mut rng = crate::util::Rng::new(14);
    for chunk in crate::conv::all_pairs().chunks(26) {
        let mut parts: Vec<String> = Vec::new();
        for p in chunk {
            let (x, y) = if rng.chance(1, 2) { (p.0, p.1) } else { (p.1, p.0) };
            parts.push(format!("{}{}", card_text(x), card_text(y)));
            parts.push(format!("{}{}:0.5", card_text(y), card_text(x)));
        }
        let text = parts.join(",");
        let parsed = catch(|| text.parse::<HandRange>().map(|r| (r.card_pairs().len(), r.card_pairs().values().all(|w| *w == 0.5))));
        check(&mut report, "range_text_in_both_orders_holds_each_combo_once", &format!("{}..", &text[..9]), parsed == Ok(Ok((chunk.len(), true))), &|| format!("{:?} for {} combos", parsed, chunk.len()));
    }
    let range: HandRange = both_orders.iter().cloned().collect();
    check(&mut report, "map_keyed_in_both_orders_has_1326_entries", "HandRange", range.card_pairs().len() == 1326, &|| format!("{} keys", range.card_pairs().len()));
    // every pair the public API hands out is in canonical form, however the rank pair was spelled
    {
        use crate::conv::RANKS;
        use espada::hand_range::RankPair;
        for (i, x) in RANKS.iter().enumerate() {
            for (j, y) in RANKS.iter().enumerate() {
                let mut sources: Vec<(String, Result<Vec<CardPair>, String>)> = Vec::new();
                if i != j {
                    sources.push((format!("RankPair::Suited({:?},{:?})", x, y), catch(|| RankPair::Suited(*x, *y).into_iter().collect())));
                    sources.push((format!("RankPair::Ofsuit({:?},{:?})", x, y), catch(|| RankPair::Ofsuit(*x, *y).into_iter().collect())));
                    for kind in ["s", "o"] {
                        let text = format!("{}{}{}", crate::conv::RANK_CHARS[i], crate::conv::RANK_CHARS[j], kind);
                        sources.push((format!("range '{}'", text), catch(|| text.parse::<HandRange>().map(|r| r.card_pairs().keys().cloned().collect::<Vec<_>>()).unwrap_or_default())));
                    }
                } else {
                    sources.push((format!("RankPair::Pocket({:?})", x), catch(|| RankPair::Pocket(*x).into_iter().collect())));
                }
                for (name, got) in sources {
                    let ok = match &got {
                        Ok(pairs) => pairs.iter().all(|p| p[0] < p[1] && *p == CardPair::new(p[1], p[0]) && std_hash(p) == std_hash(&CardPair::new(p[0], p[1]))),
                        Err(_) => true, // a panic on a reversed spelling is C09's subject
                    };
                    check(&mut report, "pairs_from_rank_pairs_are_canonical", &name, ok, &|| format!("{:?}", got));
                }
                if i < j {
                    // both spellings in one range: every combo once
                    for kind in ["s", "o"] {
                        let text = format!("{a}{b}{k},{b}{a}{k}:0.5", a = crate::conv::RANK_CHARS[i], b = crate::conv::RANK_CHARS[j], k = kind);
                        let n = catch(|| text.parse::<HandRange>().map(|r| r.card_pairs().len()));
                        let expect = if kind == "s" { 4 } else { 12 };
                        let ok = matches!(n, Ok(Ok(k)) if k == expect || k == 0) || n.is_err();
                        check(&mut report, "both_spellings_of_a_rank_pair_hold_each_combo_once", &text, ok, &|| format!("{:?} combos", n));
                    }
                }
            }
        }
    }
    // pairs of different card sets are different values
    let all: Vec<(u8, u8)> = crate::conv::all_pairs();
    let built: Vec<CardPair> = all.iter().map(|p| CardPair::new(card(p.1), card(p.0))).collect();
    let mut unequal_ok = true;
    let mut witness = String::new();
    for i in 0..built.len() {
        for j in 0..built.len() {
            if (built[i] == built[j]) != (i == j) {
                unequal_ok = false;
                witness = format!("{} vs {}", pair_text(all[i]), pair_text(all[j]));
            }
        }
    }
    check(&mut report, "equality_is_exactly_same_two_cards", "all 1326x1326", unequal_ok, &|| witness.clone());
    report.count("pair_comparisons", (built.len() * built.len()) as u64);

    let p = CardPair::new(card(51), card(0));
    report.sample(Json::obj().set("input", Json::str("new(2c, As)")).set("observed", Json::str(format!("{} [{}, {}] std_hash={:x}", p, p[0], p[1], std_hash(&p)))));
    report.sample(Json::obj().set("input", Json::str("\"KdAs\".parse()")).set("observed", Json::str(format!("{:?}", "KdAs".parse::<CardPair>()))));
    report
}
