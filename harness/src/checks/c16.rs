//! C16 — the example's work splitter tiles the enumeration for every worker count.
//! `calculate_scopes` is compiled from the repository's examples/multi-thread/scope.rs.

use super::enumcase::EnumCase;
use crate::conv::{parse_cards_text, pid, Combos};
use crate::core::{Ctx, Report, Tier};
use crate::drive;
use crate::example_scope::{calculate_scopes, CalculationScope};
use crate::json::Json;
use crate::refmodel::scope::{is_position, linear, TERMINAL};
use crate::util::{catch, par_run, Rng};

/// The first defect of a scope list, as (signature detail, description).
pub fn list_defect(n: u32, scopes: &[CalculationScope]) -> Option<(String, String)> {
    if scopes.len() != n as usize {
        return Some((format!("len={}", scopes.len()), format!("{} scopes for {} workers", scopes.len(), n)));
    }
    let valid = |p: (u8, u8)| is_position(p) || p == TERMINAL;
    let mut prev = (0u8, 1u8);
    for (i, s) in scopes.iter().enumerate() {
        let from = (s.turn_from, s.river_from);
        let to = (s.turn_to, s.river_to);
        if from != prev {
            let what = if i == 0 { "the first scope does not start at (0,1)".to_string() } else { format!("scope {} starts at {:?} but scope {} ended at {:?}", i, from, i - 1, prev) };
            return Some((format!("scope[{}].from=({},{})", i, from.0, from.1), what));
        }
        if !valid(to) {
            return Some((format!("scope[{}].to=({},{})", i, to.0, to.1), format!("scope {} ends at {:?}, which is not a position (turn < river <= 48) nor the terminal (48,49)", i, to)));
        }
        if !valid(from) {
            return Some((format!("scope[{}].from=({},{})", i, from.0, from.1), format!("scope {} starts at the invalid position {:?}", i, from)));
        }
        if linear(to) < linear(from) {
            return Some((format!("scope[{}].back=({},{})", i, to.0, to.1), format!("scope {} steps backwards from {:?} to {:?}", i, from, to)));
        }
        prev = to;
    }
    if prev != TERMINAL {
        return Some((format!("last.to=({},{})", prev.0, prev.1), format!("the last scope ends at {:?}, not at (48,49)", prev)));
    }
    None
}

fn check_n(n: u32, report: &mut Report, cuts_seen: &mut Vec<u64>) -> bool {
    report.evaluations += 1;
    let scopes = match catch(|| calculate_scopes(n)) {
        Ok(s) => s,
        Err(p) => {
            report.violate(format!("n={}:panic", n), format!("calculate_scopes({}) panicked: {}", n, p), Json::obj().set("kind", Json::str("scopes-n")).set("n", Json::Int(n as i128)));
            return false;
        }
    };
    for s in &scopes {
        let to = (s.turn_to, s.river_to);
        if is_position(to) || to == TERMINAL {
            let l = linear(to);
            cuts_seen[l / 64] |= 1 << (l % 64);
        }
    }
    match list_defect(n, &scopes) {
        Some((sig, what)) => {
            report.violate(format!("n={}:{}", n, sig), format!("calculate_scopes({}): {}", n, what), Json::obj().set("kind", Json::str("scopes-n")).set("n", Json::Int(n as i128)));
            false
        }
        None => true,
    }
}

fn flop(text: &str) -> [u8; 3] {
    let v = parse_cards_text(text).unwrap();
    [v[0], v[1], v[2]]
}

fn combos_of(text: &str) -> Combos {
    text.split(',')
        .map(|t| {
            let v = parse_cards_text(t).unwrap();
            (pid(v[0], v[1]), 1.0)
        })
        .collect()
}

fn e2e_configs() -> Vec<EnumCase> {
    vec![
        EnumCase::collect("e2e-1", flop("2h2d2c"), vec![combos_of("4s3h"), combos_of("4d3c")]),
        EnumCase::collect("e2e-2", flop("Kh7d7c"), vec![combos_of("AsAh,2d2c,KsQs"), combos_of("AdAc,2s2h,As2c")]),
    ]
}

/// (showdowns, per-player outright/tie wins) of one evaluator run
fn drain_tally(case: &EnumCase, scope: Option<drive::Scope>) -> Result<(u64, Vec<u64>), String> {
    let (ranges, cfg) = case.build()?;
    catch(|| {
        let mut wins = vec![0u64; cfg.ranges.len()];
        let mut n = 0u64;
        for sd in drive::evaluator(&cfg, &ranges, scope) {
            n += 1;
            for (i, p) in sd.players().iter().enumerate() {
                if p.is_winner() {
                    wins[i] += 1;
                }
            }
        }
        (n, wins)
    })
}

/// Runs one evaluator per scope exactly as the example's workers do (a worker that panics
/// contributes nothing, as the example swallows it) and compares the sums with the single run.
fn check_e2e(n: u32, case: &EnumCase, single: &(u64, Vec<u64>), report: &mut Report) {
    report.evaluations += 1;
    report.count("end_to_end_runs", 1);
    let scopes = match catch(|| calculate_scopes(n)) {
        Ok(s) => s,
        Err(_) => return, // reported by the pure check
    };
    let mut total = 0u64;
    let mut wins = vec![0u64; single.1.len()];
    let mut lost_workers = 0;
    for s in &scopes {
        match drain_tally(case, Some(((s.turn_from, s.river_from), (s.turn_to, s.river_to)))) {
            Ok((c, w)) => {
                total += c;
                for (a, b) in wins.iter_mut().zip(w.iter()) {
                    *a += *b;
                }
            }
            Err(_) => lost_workers += 1,
        }
    }
    if total != single.0 || wins != single.1 {
        report.violate(
            format!("n={}:e2e:{}", n, case.label),
            format!("{} workers on {}: the per-scope results add up to {} showdowns / wins {:?}, the single run gives {} / {:?} ({} workers panicked)", n, case.label, total, wins, single.0, single.1, lost_workers),
            Json::obj().set("kind", Json::str("scopes-n")).set("n", Json::Int(n as i128)),
        );
    }
}

pub fn run(ctx: &Ctx) -> Report {
    let limit: u32 = ctx.tier.pick(4096, 32768);
    let mut ns: Vec<u32> = (1..=limit).collect();
    let mut rng = Rng::derive(ctx.seed, "c16-n", 0);
    for _ in 0..64 {
        ns.push(limit + 1 + rng.below((1u64 << 22) - limit as u64) as u32);
    }
    ns.push(1 << 22);
    // beyond the point where a worker index is no longer exact in f32
    for n in [(1u32 << 24) - 1, 1 << 24, (1 << 24) + 1, (1 << 24) + 3, (1 << 24) + 10_007, 20_000_003, 1 << 25] {
        ns.push(n);
    }
    if ctx.tier == Tier::Thorough {
        for _ in 0..12 {
            ns.push((1 << 22) + rng.below((1u64 << 25) - (1 << 22)) as u32);
        }
    }
    let results = par_run(
        ns.len(),
        64,
        |_| (Report::new(), vec![0u64; 1177 / 64 + 1], Vec::<u32>::new()),
        |(report, cuts, bad), i| {
            if !check_n(ns[i], report, cuts) {
                bad.push(ns[i]);
            }
        },
    );
    let mut report = Report::new();
    let mut cuts = vec![0u64; 1177 / 64 + 1];
    let mut bad: Vec<u32> = Vec::new();
    for (r, c, b) in results {
        report.merge(r);
        for (x, y) in cuts.iter_mut().zip(c.iter()) {
            *x |= *y;
        }
        bad.extend(b);
    }
    bad.sort_unstable();
    // the same computation in the dev profile (debug assertions and overflow checks inside calculate_scopes)
    dev_pass(ctx, &mut report);
    // the example program itself, as a process, with 1..15 workers
    example_program_runs(ctx, &mut report);
    // end to end
    let configs = e2e_configs();
    let mut e2e_ns: Vec<u32> = (1..=64).collect();
    e2e_ns.extend(bad.iter().take(20));
    if ctx.tier == Tier::Thorough {
        e2e_ns.extend([100, 127, 128, 255, 256, 511, 1000, 1176, 1177, 2000, 4096]);
    }
    e2e_ns.sort_unstable();
    e2e_ns.dedup();
    let singles: Vec<Result<(u64, Vec<u64>), String>> = configs.iter().map(|c| drain_tally(c, None)).collect();
    let jobs: Vec<(u32, usize)> = e2e_ns.iter().flat_map(|n| (0..configs.len()).map(move |c| (*n, c))).collect();
    let e2e = par_run(
        jobs.len(),
        1,
        |_| Report::new(),
        |report, j| {
            let (n, c) = jobs[j];
            if let Ok(single) = &singles[c] {
                check_e2e(n, &configs[c], single, report);
            }
        },
    );
    for r in e2e {
        report.merge(r);
    }
    for (c, s) in configs.iter().zip(singles.iter()) {
        if let Err(e) = s {
            report.inconclusive(format!("single run of {} failed: {}", c.label, e));
        }
    }
    report.distinct_extra = ns.len() as u64 + jobs.len() as u64;
    report.exhaustive = Some(true);
    report.set("n_interval_exhausted", Json::str(format!("1..={}", limit)));
    report.set("n_sampled_above_interval", Json::Int(ns.len() as i128 - limit as i128));
    report.set("n_with_defective_lists", Json::Int(bad.len() as i128));
    report.set("distinct_cut_positions_seen", Json::Int(cuts.iter().map(|w| w.count_ones() as i128).sum()));
    report.set("end_to_end_worker_counts", Json::Int(e2e_ns.len() as i128));
    for n in [1u32, 4, 15, 17] {
        if let Ok(s) = catch(|| calculate_scopes(n)) {
            report.sample(Json::obj().set("n", Json::Int(n as i128)).set("scope_ends", Json::str(s.iter().map(|s| format!("({},{})", s.turn_to, s.river_to)).collect::<Vec<_>>().join(" "))));
        }
    }
    report.rule = "one execution = calculate_scopes(n) from the example's own source checked for: n scopes, first from (0,1), last to (48,49), each from = previous to, no step backwards, only valid positions; plus end-to-end runs (one real scoped evaluator per scope, sums of showdowns and wins against the single run); distinct = distinct n (pure) + distinct (n, configuration) (end to end); exhaustive over the stated n interval".into();
    report.assumptions.push("'all n >= 1' is cut at 2^24+3 (quick) / 2^25 (thorough): every n of the stated interval, 65 seeded n up to 2^22, four n around 2^24 where the worker index stops being exact in f32".into());
    report.assumptions.push("end-to-end workers run sequentially here; what threads add is C15's subject".into());
    report
}

/// The real example program, run as a process under `taskset` so that it sees 2..16 CPUs (it uses the CPU
/// count minus one as its worker count): its "materialized" total and its per-hand equities must equal what a
/// single evaluator gives. This observes main.rs itself (thread spawning, joining, adding up), not a re-implementation.
fn example_program_runs(_ctx: &Ctx, report: &mut Report) {
    use crate::child::run_cmd;
    let repo = std::env::var("VERIF_REPO").unwrap_or_else(|_| "/repo".to_string());
    let target = format!("{}/target", repo);
    let skipped = |report: &mut Report, why: String| {
        println!("ENGINE-SKIPPED property=C16 engine=example-program reason={}", why);
        report.set("example_program", Json::str(format!("skipped: {}", why)));
    };
    let build = run_cmd(
        "cargo",
        &["build".into(), "--offline".into(), "--example".into(), "multi-thread".into()],
        &[("CARGO_TARGET_DIR".to_string(), target.clone()), ("CARGO_NET_OFFLINE".to_string(), "true".to_string())],
        Some(std::path::Path::new(&repo)),
        std::time::Duration::from_secs(900),
    );
    match build {
        Ok(r) if r.code == Some(0) => {}
        Ok(r) => return skipped(report, format!("the example does not build (code {:?}): {}", r.code, r.stderr.lines().rev().take(3).collect::<Vec<_>>().join(" | "))),
        Err(e) => return skipped(report, e),
    }
    let exe = format!("{}/debug/examples/multi-thread", target);
    let inputs: [(&str, Vec<&str>); 2] = [("2h2d2c", vec!["4s3h,5s5h", "4d3c,AsKs:0.5"]), ("Kh7d7c", vec!["AsAh,2d2c,KsQs", "AdAc,2s2h,As2c:0.25", "JJ"])];
    for (board, ranges) in inputs.iter() {
        // expected, from one unscoped evaluator over the same inputs
        let flop_ids = parse_cards_text(board).unwrap();
        let case = EnumCase::parsed("example", [flop_ids[0], flop_ids[1], flop_ids[2]], ranges);
        let (hr, cfg) = match case.build() {
            Ok(v) => v,
            Err(_) => continue,
        };
        let mut expected: std::collections::BTreeMap<(usize, String), (f64, u64)> = std::collections::BTreeMap::new();
        let mut total = 0u64;
        let single = catch(|| {
            for sd in drive::evaluator(&cfg, &hr, None) {
                total += 1;
                for (i, p) in sd.players().iter().enumerate() {
                    let e = expected.entry((i, p.hole_cards().to_string())).or_insert((0.0, 0));
                    e.1 += 1;
                    if p.is_winner() {
                        e.0 += 1.0 / sd.winner_len() as f64 * sd.probability() as f64;
                    }
                }
            }
        });
        if single.is_err() {
            continue;
        }
        let mut want: Vec<(String, f64)> = expected.iter().map(|((_, cards), (w, m))| (cards.clone(), w / *m as f64 * 100.0)).collect();
        want.sort_by(|a, b| a.0.cmp(&b.0).then(a.1.partial_cmp(&b.1).unwrap()));
        for cpus in [2usize, 3, 4, 5, 6, 9, 12, 16] {
            if cpus > crate::util::threads().max(2) {
                continue;
            }
            let mut args: Vec<String> = vec!["-c".into(), format!("0-{}", cpus - 1), exe.clone(), board.to_string()];
            args.extend(ranges.iter().map(|r| r.to_string()));
            report.evaluations += 1;
            report.count("example_program_runs", 1);
            let r = match run_cmd("taskset", &args, &[], None, std::time::Duration::from_secs(300)) {
                Ok(r) => r,
                Err(e) => return skipped(report, e),
            };
            let case_json = Json::obj().set("kind", Json::str("example-program")).set("cpus", Json::Int(cpus as i128)).set("board", Json::str(*board)).set("ranges", Json::strs(ranges.iter().map(|s| s.to_string())));
            if r.code != Some(0) {
                report.violate(format!("example:{}:cpus={}:exit", board, cpus), format!("the multi-thread example with {} CPUs ({} workers) on {} {:?} ended with code {:?}: {}", cpus, cpus - 1, board, ranges, r.code, r.stderr.lines().rev().take(2).collect::<Vec<_>>().join(" | ")), case_json);
                continue;
            }
            let materialized: Option<u64> = r.stdout.lines().find_map(|l| l.strip_prefix("materialized: ")).and_then(|l| l.split_whitespace().next()).and_then(|n| n.parse().ok());
            let mut got: Vec<(String, f64)> = r
                .stdout
                .lines()
                .filter_map(|l| {
                    let (cards, pct) = l.split_once(": ")?;
                    let pct = pct.strip_suffix('%')?;
                    if cards.len() == 4 {
                        Some((cards.to_string(), pct.parse::<f64>().ok()?))
                    } else {
                        None
                    }
                })
                .collect();
            got.sort_by(|a, b| a.0.cmp(&b.0).then(a.1.partial_cmp(&b.1).unwrap()));
            let same = got.len() == want.len() && got.iter().zip(want.iter()).all(|(g, w)| g.0 == w.0 && (g.1 - w.1).abs() <= 0.0021);
            if materialized != Some(total) || !same {
                report.violate(
                    format!("example:{}:cpus={}", board, cpus),
                    format!("the multi-thread example with {} CPUs ({} workers) on {} {:?} reports materialized {:?} and {} equity lines; one evaluator gives {} showdowns and {} lines (first lines {:?} vs {:?})", cpus, cpus - 1, board, ranges, materialized, got.len(), total, want.len(), got.iter().take(2).collect::<Vec<_>>(), want.iter().take(2).collect::<Vec<_>>()),
                    case_json,
                );
            }
        }
    }
}

/// Dev-profile batch: small n exhaustively, then the large ones, shard `part` of `parts`.
fn dev_batch(seed: u64, part: usize, parts: usize) -> Report {
    let mut ns: Vec<u32> = (1..=1024).collect();
    let mut rng = Rng::derive(seed, "c16-dev", 0);
    for _ in 0..24 {
        ns.push(1025 + rng.below((1u64 << 23) - 1025) as u32);
    }
    for n in [(1u32 << 22) + 1, (1 << 22) + 3, (1 << 22) + 5, (1 << 23) + 1, (1 << 24) - 1, (1 << 24) + 1] {
        ns.push(n);
    }
    let mut report = Report::new();
    let mut cuts = vec![0u64; 1177 / 64 + 1];
    // in this profile the evaluator's own debug assertions are live: the per-scope runs must still add up
    let e2e = e2e_configs();
    let singles: Vec<Option<(u64, Vec<u64>)>> = e2e.iter().map(|c| drain_tally(c, None).ok()).collect();
    for (i, n) in ns.iter().enumerate() {
        if i % parts == part {
            check_n(*n, &mut report, &mut cuts);
            if *n <= 96 {
                for (c, single) in e2e.iter().zip(singles.iter()) {
                    if let Some(single) = single {
                        check_e2e(*n, c, single, &mut report);
                    }
                }
            }
        }
    }
    report.count("dev_profile_worker_counts", report.evaluations);
    report
}

fn dev_pass(ctx: &Ctx, report: &mut Report) {
    use crate::child::{self, ChildOutcome};
    let exe = match Ctx::exe_for("debug") {
        Some(e) => e,
        None => {
            report.inconclusive("no dev-profile binary available (VERIF_DEBUG_EXE not set)");
            return;
        }
    };
    let parts = 12usize;
    let results = par_run(parts, 1, |_| Report::new(), |r, part| {
        let case = Json::obj().set("kind", Json::str("dev-batch")).set("seed", Json::Int(ctx.seed as i128)).set("part", Json::Int(part as i128)).set("parts", Json::Int(parts as i128));
        match child::run_case(&exe, "C16", &case, 8 << 20, std::time::Duration::from_secs(900)) {
            ChildOutcome::Reported(doc) => {
                let ev = r.evaluations;
                child::merge_child_report(r, &doc, "debug:");
                r.evaluations = ev;
            }
            ChildOutcome::Crashed { signal, code, stack_overflow, stderr_tail } => r.violate(
                format!("debug:dev-batch-{}:crash", part),
                format!("[dev profile] batch {} died (signal {:?}, code {:?}, stack overflow {}): {}", part, signal, code, stack_overflow, stderr_tail),
                case,
            ),
            ChildOutcome::Timeout { after_s } => r.inconclusive(format!("dev-profile batch {} timed out after {:.0}s", part, after_s)),
            ChildOutcome::SpawnFailed(e) => r.inconclusive(format!("dev-profile batch {}: {}", part, e)),
        }
    });
    for r in results {
        report.merge(r);
    }
    child::cleanup_scratch();
}

pub fn replay(case: &Json) -> Report {
    let mut report = Report::new();
    if case.get("kind").and_then(|k| k.as_str()) == Some("dev-batch") {
        let get = |k: &str| case.get(k).and_then(|v| v.as_i128()).unwrap_or(0);
        return dev_batch(get("seed") as u64, get("part") as usize, (get("parts") as usize).max(1));
    }
    let n = case.get("n").and_then(|v| v.as_i128()).unwrap_or(0) as u32;
    if n == 0 {
        report.inconclusive("replay case has no n");
        return report;
    }
    let mut cuts = vec![0u64; 1177 / 64 + 1];
    check_n(n, &mut report, &mut cuts);
    if n <= 8192 {
        for c in e2e_configs() {
            if let Ok(single) = drain_tally(&c, None) {
                check_e2e(n, &c, &single, &mut report);
            }
        }
    }
    report
}
