//! C16 — the example's work splitter tiles the enumeration for every worker count.
//! `calculate_scopes` is compiled from the repository's examples/multi-thread/scope.rs.

use super::enumcase::EnumCase;
use crate::conv::{parse_cards_text, pid, Combos};
use crate::core::{Ctx, Report, Tier};
use crate::drive;
use crate::example_scope::{calculate_scopes, CalculationScope};
use crate::json::Json;
use crate::refmodel::scope::{is_position, linear, TERMINAL};
use crate::util::{catch, par_run, Rng};

/// The first defect of a scope list, as (signature detail, description).
pub fn list_defect(n: u32, scopes: &[CalculationScope]) -> Option<(String, String)> {
    if scopes.len() != n as usize {
        return Some((format!("len={}", scopes.len()), format!("{} scopes for {} workers", scopes.len(), n)));
    }
    let valid = |p: (u8, u8)| is_position(p) || p == TERMINAL;
    let mut prev = (0u8, 1u8);
    for (i, s) in scopes.iter().enumerate() {
        let from = (s.turn_from, s.river_from);
        let to = (s.turn_to, s.river_to);
        if from != prev {
            let what = if i == 0 { "the first scope does not start at (0,1)".to_string() } else { format!("scope {} starts at {:?} but scope {} ended at {:?}", i, from, i - 1, prev) };
            return Some((format!("scope[{}].from=({},{})", i, from.0, from.1), what));
        }
        if !valid(to) {
            return Some((format!("scope[{}].to=({},{})", i, to.0, to.1), format!("scope {} ends at {:?}, which is not a position (turn < river <= 48) nor the terminal (48,49)", i, to)));
        }
        if !valid(from) {
            return Some((format!("scope[{}].from=({},{})", i, from.0, from.1), format!("scope {} starts at the invalid position {:?}", i, from)));
        }
        if linear(to) < linear(from) {
            return Some((format!("scope[{}].back=({},{})", i, to.0, to.1), format!("scope {} steps backwards from {:?} to {:?}", i, from, to)));
        }
        prev = to;
    }
    if prev != TERMINAL {
        return Some((format!("last.to=({},{})", prev.0, prev.1), format!("the last scope ends at {:?}, not at (48,49)", prev)));
    }
    None
}

fn check_n(n: u32, report: &mut Report, cuts_seen: &mut Vec<u64>) -> bool {
    report.evaluations += 1;
    let scopes = match catch(|| calculate_scopes(n)) {
        Ok(s) => s,
        Err(p) => {
            report.violate(format!("n={}:panic", n), format!("calculate_scopes({}) panicked: {}", n, p), Json::obj().set("kind", Json::str("scopes-n")).set("n", Json::Int(n as i128)));
            return false;
        }
    };
    for s in &scopes {
        let to = (s.turn_to, s.river_to);
        if is_position(to) || to == TERMINAL {
            let l = linear(to);
            cuts_seen[l / 64] |= 1 << (l % 64);
        }
    }
    match list_defect(n, &scopes) {
        Some((sig, what)) => {
            report.violate(format!("n={}:{}", n, sig), format!("calculate_scopes({}): {}", n, what), Json::obj().set("kind", Json::str("scopes-n")).set("n", Json::Int(n as i128)));
            false
        }
        None => true,
    }
}

fn flop(text: &str) -> [u8; 3] {
    let v = parse_cards_text(text).unwrap();
    [v[0], v[1], v[2]]
}

fn combos_of(text: &str) -> Combos {
    text.split(',')
        .map(|t| {
            let v = parse_cards_text(t).unwrap();
            (pid(v[0], v[1]), 1.0)
        })
        .collect()
}

fn e2e_configs() -> Vec<EnumCase> {
    vec![
        EnumCase::collect("e2e-1", flop("2h2d2c"), vec![combos_of("4s3h"), combos_of("4d3c")]),
        EnumCase::collect("e2e-2", flop("Kh7d7c"), vec![combos_of("AsAh,2d2c,KsQs"), combos_of("AdAc,2s2h,As2c")]),
    ]
}

/// (showdowns, per-player outright/tie wins) of one evaluator run
fn drain_tally(case: &EnumCase, scope: Option<drive::Scope>) -> Result<(u64, Vec<u64>), String> {
    let (ranges, cfg) = case.build()?;
    catch(|| {
        let mut wins = vec![0u64; cfg.ranges.len()];
        let mut n = 0u64;
        for sd in drive::evaluator(&cfg, &ranges, scope) {
            n += 1;
            for (i, p) in sd.players().iter().enumerate() {
                if p.is_winner() {
                    wins[i] += 1;
                }
            }
        }
        (n, wins)
    })
}

/// Runs one evaluator per scope exactly as the example's workers do (a worker that panics
/// contributes nothing, as the example swallows it) and compares the sums with the single run.
fn check_e2e(n: u32, case: &EnumCase, single: &(u64, Vec<u64>), report: &mut Report) {
    report.evaluations += 1;
    report.count("end_to_end_runs", 1);
    let scopes = match catch(|| calculate_scopes(n)) {
        Ok(s) => s,
        Err(_) => return, // reported by the pure check
    };
    let mut total = 0u64;
    let mut wins = vec![0u64; single.1.len()];
    let mut lost_workers = 0;
    for s in &scopes {
        match drain_tally(case, Some(((s.turn_from, s.river_from), (s.turn_to, s.river_to)))) {
            Ok((c, w)) => {
                total += c;
                for (a, b) in wins.iter_mut().zip(w.iter()) {
                    *a += *b;
                }
            }
            Err(_) => lost_workers += 1,
        }
    }
    if total != single.0 || wins != single.1 {
        report.violate(
            format!("n={}:e2e:{}", n, case.label),
            format!("{} workers on {}: the per-scope results add up to {} showdowns / wins {:?}, the single run gives {} / {:?} ({} workers panicked)", n, case.label, total, wins, single.0, single.1, lost_workers),
            Json::obj().set("kind", Json::str("scopes-n")).set("n", Json::Int(n as i128)),
        );
    }
}

pub fn run(ctx: &Ctx) -> Report {
    let limit: u32 = ctx.tier.pick(4096, 32768);
    let mut ns: Vec<u32> = (1..=limit).collect();
    let mut rng = Rng::derive(ctx.seed, "c16-n", 0);
    for _ in 0..64 {
        ns.push(limit + 1 + rng.below((1u64 << 22) - limit as u64) as u32);
    }
    ns.push(1 << 22);
    // beyond the point where a worker index is no longer exact in f32
    for n in [(1u32 << 24) - 1, 1 << 24, (1 << 24) + 1, (1 << 24) + 3, (1 << 24) + 10_007, 20_000_003, 1 << 25] {
        ns.push(n);
    }
    if ctx.tier == Tier::Thorough {
        for _ in 0..12 {
            ns.push((1 << 22) + rng.below((1u64 << 25) - (1 << 22)) as u32);
        }
    }
    let results = par_run(
        ns.len(),
        64,
        |_| (Report::new(), vec![0u64; 1177 / 64 + 1], Vec::<u32>::new()),
        |(report, cuts, bad), i| {
            if !check_n(ns[i], report, cuts) {
                bad.push(ns[i]);
            }
        },
    );
    let mut report = Report::new();
    let mut cuts = vec![0u64; 1177 / 64 + 1];
    let mut bad: Vec<u32> = Vec::new();
    for (r, c, b) in results {
        report.merge(r);
        for (x, y) in cuts.iter_mut().zip(c.iter()) {
            *x |= *y;
        }
        bad.extend(b);
    }
    bad.sort_unstable();
    // the same computation in the dev profile (debug assertions and overflow checks inside calculate_scopes)
    dev_pass(ctx, &mut report);
    // end to end
    let configs = e2e_configs();
    let mut e2e_ns: Vec<u32> = (1..=64).collect();
    e2e_ns.extend(bad.iter().take(20));
    if ctx.tier == Tier::Thorough {
        e2e_ns.extend([100, 127, 128, 255, 256, 511, 1000, 1176, 1177, 2000, 4096]);
    }
    e2e_ns.sort_unstable();
    e2e_ns.dedup();
    let singles: Vec<Result<(u64, Vec<u64>), String>> = configs.iter().map(|c| drain_tally(c, None)).collect();
    let jobs: Vec<(u32, usize)> = e2e_ns.iter().flat_map(|n| (0..configs.len()).map(move |c| (*n, c))).collect();
    let e2e = par_run(
        jobs.len(),
        1,
        |_| Report::new(),
        |report, j| {
            let (n, c) = jobs[j];
            if let Ok(single) = &singles[c] {
                check_e2e(n, &configs[c], single, report);
            }
        },
    );
    for r in e2e {
        report.merge(r);
    }
    for (c, s) in configs.iter().zip(singles.iter()) {
        if let Err(e) = s {
            report.inconclusive(format!("single run of {} failed: {}", c.label, e));
        }
    }
    report.distinct_extra = ns.len() as u64 + jobs.len() as u64;
    report.exhaustive = Some(true);
    report.set("n_interval_exhausted", Json::str(format!("1..={}", limit)));
    report.set("n_sampled_above_interval", Json::Int(ns.len() as i128 - limit as i128));
    report.set("n_with_defective_lists", Json::Int(bad.len() as i128));
    report.set("distinct_cut_positions_seen", Json::Int(cuts.iter().map(|w| w.count_ones() as i128).sum()));
    report.set("end_to_end_worker_counts", Json::Int(e2e_ns.len() as i128));
    for n in [1u32, 4, 15, 17] {
        if let Ok(s) = catch(|| calculate_scopes(n)) {
            report.sample(Json::obj().set("n", Json::Int(n as i128)).set("scope_ends", Json::str(s.iter().map(|s| format!("({},{})", s.turn_to, s.river_to)).collect::<Vec<_>>().join(" "))));
        }
    }
    report.rule = "one execution = calculate_scopes(n) from the example's own source checked for: n scopes, first from (0,1), last to (48,49), each from = previous to, no step backwards, only valid positions; plus end-to-end runs (one real scoped evaluator per scope, sums of showdowns and wins against the single run); distinct = distinct n (pure) + distinct (n, configuration) (end to end); exhaustive over the stated n interval".into();
    report.assumptions.push("'all n >= 1' is cut at 2^24+3 (quick) / 2^25 (thorough): every n of the stated interval, 65 seeded n up to 2^22, four n around 2^24 where the worker index stops being exact in f32".into());
    report.assumptions.push("end-to-end workers run sequentially here; what threads add is C15's subject".into());
    report
}

/// Dev-profile batch: small n exhaustively, then the large ones, shard `part` of `parts`.
fn dev_batch(seed: u64, part: usize, parts: usize) -> Report {
    let mut ns: Vec<u32> = (1..=1024).collect();
    let mut rng = Rng::derive(seed, "c16-dev", 0);
    for _ in 0..24 {
        ns.push(1025 + rng.below((1u64 << 23) - 1025) as u32);
    }
    for n in [(1u32 << 22) + 1, (1 << 22) + 3, (1 << 22) + 5, (1 << 23) + 1, (1 << 24) - 1, (1 << 24) + 1] {
        ns.push(n);
    }
    let mut report = Report::new();
    let mut cuts = vec![0u64; 1177 / 64 + 1];
    for (i, n) in ns.iter().enumerate() {
        if i % parts == part {
            check_n(*n, &mut report, &mut cuts);
        }
    }
    report.count("dev_profile_worker_counts", report.evaluations);
    report
}

fn dev_pass(ctx: &Ctx, report: &mut Report) {
    use crate::child::{self, ChildOutcome};
    let exe = match Ctx::exe_for("debug") {
        Some(e) => e,
        None => {
            report.inconclusive("no dev-profile binary available (VERIF_DEBUG_EXE not set)");
            return;
        }
    };
    let parts = 12usize;
    let results = par_run(parts, 1, |_| Report::new(), |r, part| {
        let case = Json::obj().set("kind", Json::str("dev-batch")).set("seed", Json::Int(ctx.seed as i128)).set("part", Json::Int(part as i128)).set("parts", Json::Int(parts as i128));
        match child::run_case(&exe, "C16", &case, 8 << 20, std::time::Duration::from_secs(900)) {
            ChildOutcome::Reported(doc) => {
                let ev = r.evaluations;
                child::merge_child_report(r, &doc, "debug:");
                r.evaluations = ev;
            }
            ChildOutcome::Crashed { signal, code, stack_overflow, stderr_tail } => r.violate(
                format!("debug:dev-batch-{}:crash", part),
                format!("[dev profile] batch {} died (signal {:?}, code {:?}, stack overflow {}): {}", part, signal, code, stack_overflow, stderr_tail),
                case,
            ),
            ChildOutcome::Timeout { after_s } => r.inconclusive(format!("dev-profile batch {} timed out after {:.0}s", part, after_s)),
            ChildOutcome::SpawnFailed(e) => r.inconclusive(format!("dev-profile batch {}: {}", part, e)),
        }
    });
    for r in results {
        report.merge(r);
    }
    child::cleanup_scratch();
}

pub fn replay(case: &Json) -> Report {
    let mut report = Report::new();
    if case.get("kind").and_then(|k| k.as_str()) == Some("dev-batch") {
        let get = |k: &str| case.get(k).and_then(|v| v.as_i128()).unwrap_or(0);
        return dev_batch(get("seed") as u64, get("part") as usize, (get("parts") as usize).max(1));
    }
    let n = case.get("n").and_then(|v| v.as_i128()).unwrap_or(0) as u32;
    if n == 0 {
        report.inconclusive("replay case has no n");
        return report;
    }
    let mut cuts = vec![0u64; 1177 / 64 + 1];
    check_n(n, &mut report, &mut cuts);
    if n <= 8192 {
        for c in e2e_configs() {
            if let Ok(single) = drain_tally(&c, None) {
                check_e2e(n, &c, &single, &mut report);
            }
        }
    }
    report
}
