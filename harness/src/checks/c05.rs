//! C05 — range notation parses to its standard poker meaning.

use super::rangegen::{first_difference, read_range, same_content, Content};
use crate::conv::{pid_of, Pid};
use crate::core::{Ctx, Report};
use crate::json::Json;
use crate::refmodel::notation::{all_well_formed_tokens, expand_list, parse_weighted_tok, Tok};
use crate::util::{catch, hash_str, par_run, Rng};
use crate::workload::random_token;
use espada::hand_range::{HandRange, HandRangeToken};
use std::collections::BTreeMap;

/// The meaning of a well-formed list text according to R2 (spaces ignored, later wins).
/// None when the text is not a list of well-formed tokens.
pub fn oracle_meaning(text: &str) -> Option<Content> {
    let stripped: String = text.chars().filter(|c| *c != ' ').collect();
    if stripped.is_empty() {
        return Some(Content::new());
    }
    let toks: Option<Vec<(Tok, f32)>> = stripped.split(',').map(parse_weighted_tok).collect();
    let toks = toks?;
    // literals above 1 belong to C10, not to this property's domain
    if toks.iter().any(|(_, w)| !(*w >= 0.0 && *w <= 1.0)) {
        return None;
    }
    Some(expand_list(&toks))
}

fn clip(s: &str) -> String {
    if s.len() > 200 {
        format!("{}...[{} bytes]", &s[..200], s.len())
    } else {
        s.to_string()
    }
}

/// parse::<HandRange>() of a well-formed text against its meaning.
pub fn check_range_text(text: &str, expected: &Content, report: &mut Report) {
    report.evaluations += 1;
    let case = || Json::obj().set("kind", Json::str("parse-range")).set("text", Json::str(text));
    let sig = |kind: &str| format!("{}:{:016x}", kind, hash_str(text));
    match catch(|| text.parse::<HandRange>()) {
        Ok(Ok(r)) => {
            let got = read_range(&r);
            if let Some(d) = super::rangegen::duplicate_physical_combo(&r) {
                report.violate(sig("range-holds-combo-twice"), format!("'{}' parses to a range that holds one combo under two keys: {}", clip(text), d), case());
            } else if !same_content(expected, &got) {
                report.violate(sig("range-meaning"), format!("'{}' parses to {} combos, its meaning has {}: {}", clip(text), got.len(), expected.len(), first_difference(expected, &got)), case());
            }
        }
        Ok(Err(_)) => report.violate(sig("range-rejected"), format!("the well-formed text '{}' is rejected", clip(text)), case()),
        Err(p) => report.violate(sig("range-panic"), format!("parsing '{}' panicked: {}", clip(text), p), case()),
    }
}

/// parse::<HandRangeToken>() + into_iter() of one well-formed token text.
pub fn check_token_text(text: &str, expected: &Content, report: &mut Report) -> u64 {
    report.evaluations += 1;
    let case = || Json::obj().set("kind", Json::str("parse-token")).set("text", Json::str(text));
    let sig = |kind: &str| format!("{}:{}", kind, text);
    let mut duplicates = 0u64;
    match catch(|| text.parse::<HandRangeToken>().map(|t| t.into_iter().collect::<Vec<_>>())) {
        Ok(Ok(items)) => {
            let mut got: BTreeMap<Pid, f32> = BTreeMap::new();
            let mut conflicting = false;
            for (p, w) in &items {
                if let Some(prev) = got.insert(pid_of(p), *w) {
                    duplicates += 1;
                    if prev.to_bits() != w.to_bits() {
                        conflicting = true;
                    }
                }
            }
            if conflicting || !same_content(expected, &got) {
                report.violate(sig("token-meaning"), format!("token '{}' expands to {} combos, it denotes {}: {}", text, got.len(), expected.len(), first_difference(expected, &got)), case());
            }
        }
        Ok(Err(_)) => report.violate(sig("token-rejected"), format!("the well-formed token '{}' is rejected", text), case()),
        Err(p) => report.violate(sig("token-panic"), format!("parsing/expanding '{}' panicked: {}", text, p), case()),
    }
    duplicates
}

const FIXED_FORMS: [&str; 6] = ["", ":1", ":0", ":1.0", ":0.5", ":0.25"];
const EXTRA_FORMS: [&str; 10] = [":0.1", ":0.999", ":0.75", ":1.000", ":0.0", ":0.3333333333333333333", ":0.000001", ":0.99999994", ":0.50", ":0.0000000000000000000000000000000000000000000014"];

fn random_literal(rng: &mut Rng) -> String {
    match rng.below(3) {
        0 => {
            let n = 1 + rng.usize_below(12);
            let digits: String = (0..n).map(|_| char::from(b'0' + rng.below(10) as u8)).collect();
            format!(":0.{}", digits)
        }
        1 => format!(":{}", (rng.f64() as f32)),
        _ => format!(":{}", f32::from_bits(rng.below(0x3f80_0001) as u32)),
    }
}

/// A literal within a hair of the midpoint between two adjacent f32 values in [2^-10, 1): the exact
/// decimal expansion of the midpoint, nudged up or down in the ~45th digit. Correct rounding must
/// follow the nudge; rounding through an intermediate f64 (double rounding) does not.
pub fn near_midpoint_literal(rng: &mut Rng) -> String {
    // x in [2^-10, 1): exponent field 117..=126
    let exp = 117 + rng.below(10) as u32;
    let mant = rng.below(1 << 23) as u32;
    let m: u128 = ((1u128 << 23) | mant as u128) * 2 + 1; // 2M + 1
    let s = (127 + 23 - exp) as u32 + 1; // midpoint = m / 2^s
    let mut num: u128 = m;
    for _ in 0..s {
        num *= 5;
    }
    let digits = format!("{:0width$}", num, width = s as usize);
    match rng.below(3) {
        0 => format!(":0.{}", digits), // the exact tie
        1 => format!(":0.{}{}1", digits, "0".repeat(20 + rng.usize_below(10))), // just above
        _ => {
            // just below: the expansion ends in 5
            let head = &digits[..digits.len() - 1];
            format!(":0.{}4{}", head, "9".repeat(20 + rng.usize_below(10)))
        }
    }
}

fn weight_of(form: &str) -> f32 {
    if form.is_empty() {
        1.0
    } else {
        form[1..].parse::<f32>().expect("weight literal")
    }
}

fn sprinkle_spaces(rng: &mut Rng, text: &str, rate: u64) -> String {
    let mut out = String::new();
    for c in text.chars() {
        while rng.chance(rate, 100) {
            out.push(' ');
        }
        out.push(c);
    }
    while rng.chance(rate, 100) {
        out.push(' ');
    }
    out
}

enum Job {
    Tokens { lo: usize, hi: usize },
    Lists { n: u32, index: u64 },
    Empties,
}

/// A token that overlaps `tok`: the same rank pair, a combo inside it, or a span over it.
fn overlapping(rng: &mut Rng, tok: &Tok) -> Tok {
    let combos = tok.combos();
    let p = *rng.pick(&combos);
    match rng.below(4) {
        0 => {
            if rng.chance(1, 2) {
                Tok::Combo(p.0, p.1)
            } else {
                Tok::Combo(p.1, p.0)
            }
        }
        1 => *tok,
        2 => {
            // the rank pair the combo belongs to
            let (ra, rb) = (p.0 / 4, p.1 / 4);
            if ra == rb {
                Tok::Pocket(ra)
            } else if p.0 % 4 == p.1 % 4 {
                Tok::Suited(ra.min(rb), ra.max(rb))
            } else {
                Tok::Offsuit(ra.min(rb), ra.max(rb))
            }
        }
        _ => {
            let (ra, rb) = (p.0 / 4, p.1 / 4);
            if ra == rb {
                Tok::PocketPlus(ra)
            } else if p.0 % 4 == p.1 % 4 {
                Tok::SuitedPlus(ra.min(rb), ra.max(rb))
            } else {
                Tok::OffsuitPlus(ra.min(rb), ra.max(rb))
            }
        }
    }
}

pub fn run(ctx: &Ctx) -> Report {
    let tokens = all_well_formed_tokens();
    let mut report = Report::new();
    // oracle self-check: the strict reader and the generator agree on every token
    for t in &tokens {
        if parse_weighted_tok(&t.text()) != Some((*t, 1.0)) {
            report.inconclusive(format!("oracle self-check failed for token {}", t.text()));
            return report;
        }
    }
    let mut jobs: Vec<Job> = vec![Job::Empties];
    let mut lo = 0;
    while lo < tokens.len() {
        jobs.push(Job::Tokens { lo, hi: (lo + 20).min(tokens.len()) });
        lo += 20;
    }
    for i in 0..ctx.tier.pick(200, 3000) {
        jobs.push(Job::Lists { n: 100, index: i as u64 });
    }
    let seed = ctx.seed;
    let random_forms = ctx.tier.pick(2, 24);
    let midpoint_forms = ctx.tier.pick(2, 12);
    let extra_forms = ctx.tier.pick(2, EXTRA_FORMS.len());
    let results = par_run(
        jobs.len(),
        1,
        |_| Report::new(),
        |report, j| match &jobs[j] {
            Job::Empties => {
                for t in ["", " ", "    ", "  \u{20}  "] {
                    check_range_text(t, &Content::new(), report);
                    report.note_distinct(hash_str(&format!("empty|{}", t)));
                }
                report.count("empty_or_blank_texts", 4);
            }
            Job::Tokens { lo, hi } => {
                let mut rng = Rng::derive(seed, "c05-forms", *lo as u64);
                for tok in &tokens[*lo..*hi] {
                    let mut forms: Vec<String> = FIXED_FORMS.iter().map(|s| s.to_string()).collect();
                    for _ in 0..extra_forms {
                        forms.push(rng.pick(&EXTRA_FORMS).to_string());
                    }
                    for _ in 0..random_forms {
                        forms.push(random_literal(&mut rng));
                    }
                    for _ in 0..midpoint_forms {
                        forms.push(near_midpoint_literal(&mut rng));
                        report.count("near_f32_midpoint_literals", 1);
                    }
                    for form in forms {
                        let text = format!("{}{}", tok.text(), form);
                        let w = weight_of(&form);
                        let expected: Content = tok.combos().into_iter().map(|p| (p, w)).collect();
                        let dups = check_token_text(&text, &expected, report);
                        report.count("token_expansions_repeating_a_combo", dups.min(1));
                        check_range_text(&text, &expected, report);
                        report.note_distinct(hash_str(&text));
                        report.count("token_texts", 1);
                    }
                    // a single rank pair spelled kicker first ("KAs", "2Ko") denotes the same hands
                    if let Tok::Suited(x, y) | Tok::Offsuit(x, y) = tok {
                        let kind = if matches!(tok, Tok::Suited(..)) { 's' } else { 'o' };
                        for form in ["", ":0.5", ":0"] {
                            let text = format!("{}{}{}{}", crate::conv::RANK_CHARS[*y as usize], crate::conv::RANK_CHARS[*x as usize], kind, form);
                            let w = weight_of(form);
                            let expected: Content = tok.combos().into_iter().map(|p| (p, w)).collect();
                            check_token_text(&text, &expected, report);
                            check_range_text(&text, &expected, report);
                            // and after / before the usual spelling in one list
                            let both = format!("{}:0.25,{}", tok.text(), text);
                            check_range_text(&both, &expected, report);
                            report.note_distinct(hash_str(&text));
                            report.count("reversed_rank_pair_texts", 1);
                        }
                    }
                    let t = tok.text();
                    if matches!(t.as_str(), "AA+" | "22+" | "32s+" | "32o+" | "AKs+" | "AKo+" | "A2s+" | "A2o+" | "AA-22" | "AKs-A2s" | "43s-42s" | "33-22") {
                        report.count("boundary_tokens_hit", 1);
                    }
                }
            }
            Job::Lists { n, index } => {
                let mut rng = Rng::derive(seed, "c05-lists", *index);
                for _ in 0..*n {
                    let len = 1 + rng.usize_below(16);
                    let mut list: Vec<(Tok, String)> = Vec::new();
                    while list.len() < len {
                        if !list.is_empty() && rng.chance(1, 6) {
                            // the very same text again (X ... Y ... X): the later occurrence still wins
                            let again = list[rng.usize_below(list.len())].clone();
                            list.push(again);
                            continue;
                        }
                        let tok = if !list.is_empty() && rng.chance(2, 5) {
                            let (prev, _) = &list[rng.usize_below(list.len())];
                            overlapping(&mut rng, prev)
                        } else {
                            random_token(&mut rng)
                        };
                        let form = match rng.below(9) {
                            0 | 1 => String::new(),
                            2 | 3 => rng.pick(&FIXED_FORMS).to_string(),
                            4 | 5 => rng.pick(&EXTRA_FORMS).to_string(),
                            6 | 7 => random_literal(&mut rng),
                            _ => near_midpoint_literal(&mut rng),
                        };
                        list.push((tok, form));
                    }
                    if rng.chance(1, 40) {
                        // a prefix naming all 1326 combos (every row's widest token, shuffled), then the list:
                        // whatever follows a complete range still re-weights it
                        let mut cover: Vec<(Tok, String)> = vec![(Tok::PocketPlus(12), rng.pick(&FIXED_FORMS).to_string())];
                        for x in 0..12u8 {
                            cover.push((Tok::SuitedPlus(x, 12), rng.pick(&FIXED_FORMS).to_string()));
                            cover.push((Tok::OffsuitPlus(x, 12), rng.pick(&FIXED_FORMS).to_string()));
                        }
                        rng.shuffle(&mut cover);
                        cover.extend(list);
                        list = cover;
                        report.count("lists_starting_with_a_complete_cover", 1);
                    }
                    let weighted: Vec<(Tok, f32)> = list.iter().map(|(t, f)| (*t, weight_of(f))).collect();
                    let expected = expand_list(&weighted);
                    // later-wins decisions this list forces
                    let mut seen: BTreeMap<Pid, f32> = BTreeMap::new();
                    let mut overwrites = 0u64;
                    for (t, w) in &weighted {
                        for p in t.combos() {
                            if let Some(prev) = seen.insert(p, *w) {
                                if prev.to_bits() != w.to_bits() {
                                    overwrites += 1;
                                }
                            }
                        }
                    }
                    report.count("later_wins_decisions_observed", overwrites);
                    let plain = list.iter().map(|(t, f)| format!("{}{}", t.text(), f)).collect::<Vec<_>>().join(",");
                    let rate = [0u64, 0, 5, 20, 50][rng.usize_below(5)];
                    let text = sprinkle_spaces(&mut rng, &plain, rate);
                    if text != plain {
                        report.count("lists_with_spaces", 1);
                    }
                    check_range_text(&text, &expected, report);
                    report.note_distinct(hash_str(&text));
                    report.count("lists", 1);
                    report.count("list_tokens", list.len() as u64);
                }
            }
        },
    );
    for r in results {
        report.merge(r);
    }
    super::firstuse::run_children(ctx, "notation", 16, &mut report);
    report.set("well_formed_tokens_all_covered", Json::Int(tokens.len() as i128));
    report.exhaustive = Some(true);
    report.rule = "one execution = parse::<HandRange>() (and for single tokens parse::<HandRangeToken>() + into_iter()) of a well-formed text compared combo by combo and bit by bit with the notation's standard meaning R2; every one of the 3,640 well-formed tokens with fixed, corner and random weight literals in [0,1] (exhaustive over tokens), seeded lists of 1..16 tokens with forced overlaps and spaces sprinkled anywhere, the empty and blank strings; distinct = distinct texts".into();
    report.assumptions.push("well formed = the property's 3,796 tokens: pockets, suited/offsuit rank pairs in either rank order (KAs = AKs), '+' tokens and spans written from the high end, ordered card pairs of two different cards; degenerate spans (88-88, AKs-AKs) and reversed '+'/span tokens are left out because the statement does not say what they denote; weight literals above 1 belong to C10".into());
    report.assumptions.push("the expected weight is Rust's correctly rounded f32 of the literal".into());
    for t in ["QQ+", "A9s+:0.5", "88-66", "AQs-A9s:0.25", "72o", "KsAs"] {
        let r = catch(|| t.parse::<HandRange>());
        if let Ok(Ok(r)) = r {
            let c = read_range(&r);
            let head: Vec<String> = c.iter().take(4).map(|(p, w)| format!("{}:{}", crate::conv::pair_text(*p), w)).collect();
            report.sample(Json::obj().set("text", Json::str(t)).set("observed_combos", Json::Int(c.len() as i128)).set("head", Json::str(head.join(" "))));
        }
    }
    report
}

pub fn replay(case: &Json) -> Report {
    let mut report = Report::new();
    let text = match case.get("text").and_then(|t| t.as_str()) {
        Some(t) => t,
        None => {
            report.inconclusive("replay case has no text");
            return report;
        }
    };
    match oracle_meaning(text) {
        Some(expected) => {
            if case.get("kind").and_then(|k| k.as_str()) == Some("parse-token") {
                check_token_text(text, &expected, &mut report);
            }
            check_range_text(text, &expected, &mut report);
        }
        None => report.inconclusive("the recorded text is not well formed for the oracle"),
    }
    report
}
