//! C06 — formatting a range and parsing the text back gives the same range;
//! likewise every well-formed token.

use super::rangegen::*;
use crate::conv::{card_pair, weight_text, RANKS};
use crate::core::{Ctx, Report, Tier};
use crate::json::Json;
use crate::refmodel::notation::{all_well_formed_tokens, Tok};
use crate::refmodel::split::{all_rank_pairs, rp_combos, rp_text, Rp};
use crate::util::{catch, hash_str, mix2, par_run, Rng};
use espada::hand_range::{HandRange, HandRangeToken, HandRangeTokenKind, RankPair};

pub fn espada_kind(tok: &Tok) -> HandRangeTokenKind {
    let r = |i: u8| RANKS[i as usize];
    match *tok {
        Tok::Pocket(a) => HandRangeTokenKind::SingleRankPair(RankPair::Pocket(r(a))),
        Tok::Suited(x, y) => HandRangeTokenKind::SingleRankPair(RankPair::Suited(r(x), r(y))),
        Tok::Offsuit(x, y) => HandRangeTokenKind::SingleRankPair(RankPair::Ofsuit(r(x), r(y))),
        Tok::PocketPlus(a) => HandRangeTokenKind::BottomClosedRankPairRange(RankPair::Pocket(r(a))),
        Tok::SuitedPlus(x, y) => HandRangeTokenKind::BottomClosedRankPairRange(RankPair::Suited(r(x), r(y))),
        Tok::OffsuitPlus(x, y) => HandRangeTokenKind::BottomClosedRankPairRange(RankPair::Ofsuit(r(x), r(y))),
        Tok::PocketSpan(a, b) => HandRangeTokenKind::DoubleClosedRankPairRange(RankPair::Pocket(r(a)), r(b)),
        Tok::SuitedSpan(x, y, z) => HandRangeTokenKind::DoubleClosedRankPairRange(RankPair::Suited(r(x), r(y)), r(z)),
        Tok::OffsuitSpan(x, y, z) => HandRangeTokenKind::DoubleClosedRankPairRange(RankPair::Ofsuit(r(x), r(y)), r(z)),
        Tok::Combo(a, b) => HandRangeTokenKind::SingleCardPair(card_pair(crate::conv::pid(a, b))),
    }
}

#[derive(Default)]
pub struct TextStats {
    pub plus_tokens: u64,
    pub span_tokens: u64,
    pub single_rank_pair_tokens: u64,
    pub single_combo_tokens: u64,
    pub weighted_tokens: u64,
    pub longest_text: u64,
    pub long_weight_prints: u64,
    pub empty_texts: u64,
}

impl TextStats {
    pub fn observe(&mut self, text: &str) {
        self.longest_text = self.longest_text.max(text.len() as u64);
        if text.is_empty() {
            self.empty_texts += 1;
            return;
        }
        for t in text.split(',') {
            let (body, w) = match t.split_once(':') {
                Some((b, w)) => (b, Some(w)),
                None => (t, None),
            };
            if let Some(w) = w {
                self.weighted_tokens += 1;
                if w.len() > 20 {
                    self.long_weight_prints += 1;
                }
            }
            if body.ends_with('+') {
                self.plus_tokens += 1;
            } else if body.contains('-') {
                self.span_tokens += 1;
            } else if body.len() == 4 {
                self.single_combo_tokens += 1;
            } else {
                self.single_rank_pair_tokens += 1;
            }
        }
    }

    pub fn merge(&mut self, o: &TextStats) {
        self.plus_tokens += o.plus_tokens;
        self.span_tokens += o.span_tokens;
        self.single_rank_pair_tokens += o.single_rank_pair_tokens;
        self.single_combo_tokens += o.single_combo_tokens;
        self.weighted_tokens += o.weighted_tokens;
        self.longest_text = self.longest_text.max(o.longest_text);
        self.long_weight_prints += o.long_weight_prints;
        self.empty_texts += o.empty_texts;
    }

    pub fn put(&self, report: &mut Report) {
        report.set("tokens_emitted_plus", Json::Int(self.plus_tokens as i128));
        report.set("tokens_emitted_span", Json::Int(self.span_tokens as i128));
        report.set("tokens_emitted_single_rank_pair", Json::Int(self.single_rank_pair_tokens as i128));
        report.set("tokens_emitted_single_combo", Json::Int(self.single_combo_tokens as i128));
        report.set("tokens_emitted_with_weight", Json::Int(self.weighted_tokens as i128));
        report.set("longest_text_bytes", Json::Int(self.longest_text as i128));
        report.set("weights_printed_with_more_than_20_chars", Json::Int(self.long_weight_prints as i128));
        report.set("empty_texts", Json::Int(self.empty_texts as i128));
    }
}

/// A writer that gives up after a byte budget: formatting into it fails midway.
pub struct BudgetWriter {
    pub left: usize,
}

impl std::fmt::Write for BudgetWriter {
    fn write_str(&mut self, s: &str) -> std::fmt::Result {
        if s.len() > self.left {
            self.left = 0;
            return Err(std::fmt::Error);
        }
        self.left -= s.len();
        Ok(())
    }
}

/// Formats an unrelated range into a writer that fails midway (on this thread). Whatever the
/// formatter keeps between calls must not leak into the next text.
pub fn interrupted_write(budget: usize) {
    use std::fmt::Write;
    let poison: Content = [((20u8, 25u8), 0.123_456_7f32), ((33, 47), 0.123_456_7), ((2, 50), 0.765_432_1), ((8, 9), 1.0), ((8, 10), 1.0)].into_iter().collect();
    let range = to_range(&poison);
    let mut w = BudgetWriter { left: budget };
    let _ = catch(|| write!(&mut w, "{}", range));
}

/// Weights whose shortest decimal print does not survive a detour through f64 (parse as f64, narrow
/// to f32): found by a sweep over every f32 in (0,1] that uses only std, then fed to the real round trip.
pub fn double_rounding_sensitive_weights() -> Vec<f32> {
    let total: u32 = 0x3f80_0000;
    let chunk: u32 = 1 << 16;
    let n_chunks = (total / chunk) as usize + 1;
    let found = par_run(
        n_chunks,
        4,
        |_| Vec::<f32>::new(),
        |acc, c| {
            let lo = (c as u32) * chunk;
            let hi = (lo.saturating_add(chunk)).min(total + 1);
            let mut buf = String::with_capacity(64);
            for bits in lo.max(1)..hi {
                let x = f32::from_bits(bits);
                buf.clear();
                use std::fmt::Write;
                let _ = write!(&mut buf, "{}", x);
                if let Ok(d) = buf.parse::<f64>() {
                    if (d as f32).to_bits() != bits {
                        acc.push(x);
                    }
                }
            }
        },
    );
    found.into_iter().flatten().collect()
}

/// format -> parse for one range content.
pub fn check_content(content: &Content, label: &str, report: &mut Report, stats: &mut TextStats) {
    report.evaluations += 1;
    let case = || content_json("roundtrip", content);
    let sig = |kind: &str| format!("{}:{}:{:016x}", kind, label, content_hash(content));
    let range = to_range(content);
    if report.evaluations % 8 == 0 {
        interrupted_write((report.evaluations as usize / 8) % 40);
        report.count("texts_formatted_after_an_interrupted_write", 1);
    }
    let text = match catch(|| range.to_string()) {
        Ok(t) => t,
        Err(p) => {
            report.violate(sig("format-panic"), format!("to_string() panicked: {} ({})", p, brief(content)), case());
            return;
        }
    };
    stats.observe(&text);
    let back = match catch(|| text.parse::<HandRange>()) {
        Ok(Ok(r)) => r,
        Ok(Err(_)) => {
            report.violate(sig("reparse-error"), format!("the text '{}' does not parse ({})", clip(&text), brief(content)), case());
            return;
        }
        Err(p) => {
            report.violate(sig("reparse-panic"), format!("parsing the text '{}' panicked: {}", clip(&text), p), case());
            return;
        }
    };
    let got = read_range(&back);
    if !same_content(content, &got) {
        report.violate(
            sig("differs"),
            format!("'{}' parses back to a different range: {} ({})", clip(&text), first_difference(content, &got), brief(content)),
            case(),
        );
    }
}

fn clip(s: &str) -> String {
    if s.len() > 160 {
        format!("{}...[{} bytes]", &s[..160], s.len())
    } else {
        s.to_string()
    }
}

fn brief(c: &Content) -> String {
    if c.len() <= 12 {
        content_text(c)
    } else {
        format!("{} combos", c.len())
    }
}

/// text -> token -> text for one token.
pub fn check_token(tok: &Tok, w: f32, report: &mut Report) {
    report.evaluations += 1;
    let case = || Json::obj().set("kind", Json::str("token-roundtrip")).set("token", Json::str(tok.text())).set("weight", Json::str(weight_text(w)));
    let sig = |kind: &str| format!("{}:{}:{}", kind, tok.text(), weight_text(w));
    let token = HandRangeToken::new(espada_kind(tok), w);
    let text = match catch(|| token.to_string()) {
        Ok(t) => t,
        Err(p) => {
            report.violate(sig("token-format-panic"), format!("formatting token {} weight {} panicked: {}", tok.text(), w, p), case());
            return;
        }
    };
    match catch(|| text.parse::<HandRangeToken>()) {
        Ok(Ok(back)) => {
            let same_text = catch(|| back.to_string()).ok() == Some(text.clone());
            if back != token || !same_text {
                report.violate(sig("token-differs"), format!("token {} weight {} prints as '{}' which parses to {:?}", tok.text(), weight_text(w), text, back), case());
            }
        }
        Ok(Err(_)) => report.violate(sig("token-reparse-error"), format!("token {} weight {} prints as '{}', which does not parse", tok.text(), weight_text(w), text), case()),
        Err(p) => report.violate(sig("token-reparse-panic"), format!("parsing '{}' panicked: {}", text, p), case()),
    }
}

pub enum Job {
    /// all base-3 patterns lo..hi over the cells `first..first+len` of a row
    Row { kind: u8, high: u8, first: usize, len: usize, lo: u64, hi: u64 },
    /// `n` sampled full-length patterns of a row
    RowSampled { kind: u8, high: u8, n: u32, index: u64 },
    /// base-`base` patterns lo..hi inside one rank pair
    InPair { rp: Rp, base: u64, lo: u64, hi: u64 },
    InPairSampled { rp: Rp, n: u32, index: u64 },
    Random { n: u32, index: u64 },
    Tokens { lo: usize, hi: usize },
}

/// The contents of one job, fed to `f` with a label and a distinctness hash.
pub fn for_each_content(job: &Job, seed: u64, f: &mut dyn FnMut(&Content, &str, u64)) {
    match job {
        Job::Row { kind, high, first, len, lo, hi } => {
            let cells = row(*kind, *high);
            let mut rng = Rng::derive(seed, "row", mix2((*kind as u64) << 8 | *high as u64, mix2(*first as u64, *lo)));
            let (a, b) = weight_pair(&mut rng);
            let label = format!("row{}-{}@{}+{}", kind, high, first, len);
            for index in *lo..*hi {
                let d = digits(index, 3, *len);
                let mut pattern = vec![0u8; cells.len()];
                pattern[*first..*first + *len].copy_from_slice(&d);
                let c = content_from_cells(&cells, &pattern, a, b);
                f(&c, &label, mix2(hash_str(&label), index));
            }
        }
        Job::RowSampled { kind, high, n, index } => {
            let cells = row(*kind, *high);
            let mut rng = Rng::derive(seed, "row-sampled", mix2((*kind as u64) << 8 | *high as u64, *index));
            let label = format!("row{}-{}", kind, high);
            for _ in 0..*n {
                let (a, b) = weight_pair(&mut rng);
                let idx = rng.below(3u64.pow(cells.len() as u32));
                let pattern = digits(idx, 3, cells.len());
                let c = content_from_cells(&cells, &pattern, a, b);
                f(&c, &label, mix2(hash_str(&label), mix2(idx, content_hash(&c))));
            }
        }
        Job::InPair { rp, base, lo, hi } => {
            let n = rp_combos(*rp).len();
            let mut rng = Rng::derive(seed, "inpair", mix2(mix2(rp.0 as u64, (rp.1 as u64) << 8 | rp.2 as u64), mix2(*base, *lo)));
            let (a, b) = weight_pair(&mut rng);
            let label = format!("in-{}-b{}", rp_text(*rp), base);
            for index in *lo..*hi {
                let pattern = digits(index, *base, n);
                let c = content_from_combo_pattern(*rp, &pattern, a, b);
                f(&c, &label, mix2(hash_str(&label), index));
            }
        }
        Job::InPairSampled { rp, n, index } => {
            let k = rp_combos(*rp).len();
            let mut rng = Rng::derive(seed, "inpair-sampled", mix2(mix2(rp.0 as u64, (rp.1 as u64) << 8 | rp.2 as u64), *index));
            let label = format!("in-{}", rp_text(*rp));
            for _ in 0..*n {
                let (a, b) = weight_pair(&mut rng);
                let idx = rng.below(3u64.pow(k as u32));
                let c = content_from_combo_pattern(*rp, &digits(idx, 3, k), a, b);
                f(&c, &label, mix2(hash_str(&label), mix2(idx, content_hash(&c))));
            }
        }
        Job::Random { n, index } => {
            let mut rng = Rng::derive(seed, "random-content", *index);
            for _ in 0..*n {
                let c = match rng.below(4) {
                    0 => {
                        let d = rng.f64();
                        random_subset(&mut rng, d * d)
                    }
                    1 => random_content(&mut rng, 1.0, 0.0),
                    _ => {
                        let (c, p) = (rng.f64(), rng.f64() * 0.4);
                        random_content(&mut rng, c, p)
                    }
                };
                f(&c, "random", content_hash(&c));
            }
        }
        Job::Tokens { .. } => {}
    }
}

/// The pattern jobs shared by C06 and C17. `windows` = exhaust every row's top and bottom
/// window of up to seven cells; `full_rows` = exhaust every row at full length.
pub fn pattern_jobs(windows: bool, full_rows: bool, sampled_per_row: u32, offsuit_pairs_full: usize, random_ranges: u32, seed: u64) -> Vec<Job> {
    let mut jobs = Vec::new();
    for (kind, high) in all_rows() {
        let len = row(kind, high).len();
        if full_rows {
            let total = 3u64.pow(len as u32);
            let step = 3000;
            let mut lo = 0;
            while lo < total {
                jobs.push(Job::Row { kind, high, first: 0, len, lo, hi: (lo + step).min(total) });
                lo += step;
            }
        } else if windows {
            let w = len.min(7);
            let total = 3u64.pow(w as u32);
            let step = 250;
            for first in [0usize, len - w] {
                let mut lo = 0;
                while lo < total {
                    jobs.push(Job::Row { kind, high, first, len: w, lo, hi: (lo + step).min(total) });
                    lo += step;
                }
                if len == w {
                    break;
                }
            }
        }
        let mut left = sampled_per_row;
        let mut index = 0;
        while left > 0 {
            let n = left.min(200);
            jobs.push(Job::RowSampled { kind, high, n, index });
            left -= n;
            index += 1;
        }
    }
    let mut rng = Rng::derive(seed, "offsuit-choice", 0);
    let mut offsuit: Vec<Rp> = all_rank_pairs().into_iter().filter(|rp| rp.0 == 2).collect();
    rng.shuffle(&mut offsuit);
    let chosen: Vec<Rp> = offsuit.iter().take(offsuit_pairs_full).cloned().collect();
    for rp in all_rank_pairs() {
        let n = rp_combos(rp).len() as u32;
        match rp.0 {
            0 | 1 => {
                let total = 3u64.pow(n);
                let step = 120;
                let mut lo = 0;
                while lo < total {
                    jobs.push(Job::InPair { rp, base: 3, lo, hi: (lo + step).min(total) });
                    lo += step;
                }
            }
            _ => {
                if chosen.contains(&rp) {
                    let total = 1u64 << n;
                    let step = 128;
                    let mut lo = 0;
                    while lo < total {
                        jobs.push(Job::InPair { rp, base: 2, lo, hi: (lo + step).min(total) });
                        lo += step;
                    }
                    for i in 0..8 {
                        jobs.push(Job::InPairSampled { rp, n: 125, index: i });
                    }
                } else {
                    jobs.push(Job::InPairSampled { rp, n: 60, index: 0 });
                }
            }
        }
    }
    let mut left = random_ranges;
    let mut index = 0;
    while left > 0 {
        let n = left.min(4);
        jobs.push(Job::Random { n, index });
        left -= n;
        index += 1;
    }
    jobs
}

/// The committed list of double-rounding-sensitive weights (`harness/data/double_rounding_sensitive_f32.txt`,
/// one hex bit pattern per line). The thorough tier recomputes it and is inconclusive if it differs.
fn sensitive_weights_from_file() -> Vec<f32> {
    let text = include_str!("../../data/double_rounding_sensitive_f32.txt");
    text.lines()
        .filter(|l| !l.starts_with('#') && !l.trim().is_empty())
        .filter_map(|l| u32::from_str_radix(l.trim().trim_start_matches("0x"), 16).ok())
        .map(f32::from_bits)
        .collect()
}

pub fn run(ctx: &Ctx) -> Report {
    let thorough = ctx.tier == Tier::Thorough;
    let mut sensitive = sensitive_weights_from_file();
    let mut sweep_note: Option<String> = None;
    if thorough {
        let swept = double_rounding_sensitive_weights();
        let a: Vec<u32> = swept.iter().map(|w| w.to_bits()).collect();
        let b: Vec<u32> = sensitive.iter().map(|w| w.to_bits()).collect();
        if a != b {
            sweep_note = Some(format!("the sweep over all f32 in (0,1] finds the sensitive weights {:x?}, the committed list holds {:x?}", a, b));
        }
        sensitive = swept;
    }
    let mut jobs = pattern_jobs(true, thorough, ctx.tier.pick(400, 0), ctx.tier.pick(8, 78), ctx.tier.pick(120, 1200), ctx.seed);
    let tokens = all_well_formed_tokens();
    let mut lo = 0;
    while lo < tokens.len() {
        jobs.push(Job::Tokens { lo, hi: (lo + 40).min(tokens.len()) });
        lo += 40;
    }
    let mut rng = Rng::derive(ctx.seed, "c06-order", 0);
    rng.shuffle(&mut jobs);
    let seed = ctx.seed;
    let weights_per_token = ctx.tier.pick(3, 14);
    let results = par_run(
        jobs.len(),
        1,
        |_| (Report::new(), TextStats::default()),
        |(report, stats), j| match &jobs[j] {
            Job::Tokens { lo, hi } => {
                let mut rng = Rng::derive(seed, "c06-token-weights", *lo as u64);
                for t in &tokens[*lo..*hi] {
                    check_token(t, 1.0, report);
                    for k in 0..weights_per_token {
                        let w = if k < 2 { corner(rng.usize_below(CORNER_WEIGHTS.len())) } else { pick_weight(&mut rng) };
                        check_token(t, w, report);
                        report.note_distinct(mix2(hash_str(&t.text()), w.to_bits() as u64));
                    }
                }
                report.count("token_round_trips", ((*hi - *lo) * (1 + weights_per_token)) as u64);
            }
            job => {
                let mut n = 0u64;
                for_each_content(job, seed, &mut |c, label, h| {
                    check_content(c, label, report, stats);
                    report.note_distinct(h);
                    n += 1;
                });
                let key = match job {
                    Job::Row { .. } => "row_window_patterns",
                    Job::RowSampled { .. } => "row_full_length_patterns_sampled",
                    Job::InPair { .. } => "in_rank_pair_patterns",
                    Job::InPairSampled { .. } => "in_rank_pair_patterns_sampled",
                    _ => "random_whole_ranges",
                };
                report.count(key, n);
            }
        },
    );
    let mut report = Report::new();
    let mut stats = TextStats::default();
    for (r, s) in results {
        report.merge(r);
        stats.merge(&s);
    }
    // weights whose shortest print is one rounding step away from trouble: every token kind and ranges
    for w in &sensitive {
        for t in [Tok::Pocket(3), Tok::PocketPlus(5), Tok::SuitedSpan(0, 3, 7), Tok::OffsuitPlus(2, 9), Tok::Combo(0, 51), Tok::Suited(4, 5)] {
            check_token(&t, *w, &mut report);
        }
        let mut c = content_from_cells(&row(0, 0), &[1, 1, 0, 2, 0, 0, 0, 0, 0, 0, 0, 0, 1], *w, 0.5);
        c.insert((1, 6), *w);
        check_content(&c, "sensitive-weight", &mut report, &mut stats);
        report.count("double_rounding_sensitive_weights_tried", 1);
    }
    if let Some(n) = sweep_note {
        report.inconclusive(n);
    }
    stats.put(&mut report);
    report.set("well_formed_tokens", Json::Int(tokens.len() as i128));
    report.exhaustive = Some(thorough);
    report.rule = "one execution = to_string() of a real HandRange followed by parse::<HandRange>() compared by key set and f32::to_bits (or HandRangeToken display -> parse -> ==); contents: every absent/a/b pattern along rows (windows of <= 7 cells in quick, every full row in thorough), every pattern inside pocket and suited rank pairs, present/absent and sampled three-state patterns inside offsuit pairs, random whole ranges, every well-formed token with corner and random weights; distinct = distinct (generator, pattern index, weights)".into();
    report.assumptions.push("domain: combos of two different cards, weights finite in [0,1] with the sign bit clear (corners 0, 1, 1e-45, MIN_POSITIVE, 0.99999994 included)".into());
    if thorough {
        report.assumptions.push("exhaustive means: all 3^13 pocket-row patterns and all 3^k patterns of every suited/offsuit row, all 3^6/3^4 patterns in every pocket/suited pair, all 2^12 patterns in every offsuit pair; whole-range subsets (2^1326) are sampled".into());
    }
    let demo = content_from_cells(&row(0, 0), &[1, 1, 1, 0, 2, 2, 0, 0, 0, 0, 0, 0, 1], 1.0, 0.5);
    let text = to_range(&demo).to_string();
    report.sample(Json::obj().set("content", Json::str("pockets AA KK QQ (1), TT 99 (0.5), 22 (1)")).set("observed_text", Json::str(text.clone())).set("parses_back_equal", Json::Bool(text.parse::<HandRange>().map(|r| same_content(&read_range(&r), &demo)).unwrap_or(false))));
    let demo = content_from_combo_pattern((0, 3, 3), &[1, 0, 2, 0, 0, 1], f32::from_bits(1), 0.1);
    let text = to_range(&demo).to_string();
    report.sample(Json::obj().set("content", Json::str(content_text(&demo))).set("observed_text", Json::str(text)));
    report
}

pub fn replay(case: &Json) -> Report {
    let mut report = Report::new();
    if case.get("kind").and_then(|k| k.as_str()) == Some("token-roundtrip") {
        let tok = case.get("token").and_then(|t| t.as_str()).and_then(crate::refmodel::notation::parse_tok_body);
        let w = case.get("weight").and_then(|t| t.as_str()).and_then(crate::conv::parse_weight_text);
        match (tok, w) {
            (Some(t), Some(w)) => check_token(&t, w, &mut report),
            _ => report.inconclusive("replay case has no token"),
        }
        return report;
    }
    match content_from_json(case) {
        Some(c) => check_content(&c, "replay", &mut report, &mut TextStats::default()),
        None => report.inconclusive("replay case has no range content"),
    }
    report
}
