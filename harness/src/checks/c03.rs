//! C03 — a showdown flags exactly the players holding the strongest hand as winners.

use crate::conv::{card, card_pair, cards_text, cid, pair_text, parse_cards_text, pid, pid_of, Pid};
use crate::core::{Ctx, Report, Tier};
use crate::json::Json;
use crate::refmodel::ranker::{self, class7};
use crate::util::{catch, hash_str, mix2, par_run, Rng};
use espada::card::Card;
use espada::evaluator::{MadeHand, Showdown};

#[derive(Clone, Debug)]
pub struct SdCase {
    pub board: [u8; 5],
    pub players: Vec<Pid>,
    pub prob: f32,
}

impl SdCase {
    fn to_json(&self) -> Json {
        Json::obj()
            .set("kind", Json::str("showdown"))
            .set("board", Json::str(cards_text(&self.board)))
            .set("players", Json::str(self.players.iter().map(|p| pair_text(*p)).collect::<Vec<_>>().join(" ")))
            .set("prob", Json::str(crate::conv::weight_text(self.prob)))
    }

    fn from_json(j: &Json) -> Option<SdCase> {
        let b = parse_cards_text(j.get("board")?.as_str()?)?;
        if b.len() != 5 {
            return None;
        }
        let mut players = Vec::new();
        for t in j.get("players")?.as_str()?.split_whitespace() {
            let v = parse_cards_text(t)?;
            if v.len() != 2 {
                return None;
            }
            players.push(pid(v[0], v[1]));
        }
        let prob = crate::conv::parse_weight_text(j.get("prob")?.as_str()?)?;
        Some(SdCase { board: [b[0], b[1], b[2], b[3], b[4]], players, prob })
    }

    fn text(&self) -> String {
        format!("board {} players {}", cards_text(&self.board), self.players.iter().map(|p| pair_text(*p)).collect::<Vec<_>>().join(" "))
    }
}

#[derive(Default)]
struct Tally {
    winner_len_hist: [u64; 24],
    players_hist: [u64; 24],
    all_tie: u64,
    collisions: u64,
}

/// Checks one call of `Showdown::new`. `classes` may carry precomputed oracle classes.
fn check(case: &SdCase, classes: Option<&[u16]>, report: &mut Report, tally: &mut Tally) {
    report.evaluations += 1;
    let board_cards: [Card; 5] = [card(case.board[0]), card(case.board[1]), card(case.board[2]), card(case.board[3]), card(case.board[4])];
    let input: Vec<_> = case.players.iter().map(|p| card_pair(*p)).collect();
    let collides = case.players.iter().any(|p| case.board.contains(&p.0) || case.board.contains(&p.1));
    let res = catch(|| Showdown::new(input.clone(), board_cards, case.prob));
    let fail = |report: &mut Report, kind: &str, what: String| {
        report.violate(format!("{}:{}", kind, hash_str(&case.text())), format!("{}: {}", what, case.text()), case.to_json());
    };
    let sd = match res {
        Err(p) => {
            fail(report, "panic", format!("Showdown::new panicked: {}", p));
            return;
        }
        Ok(None) => {
            if collides {
                tally.collisions += 1;
            } else {
                fail(report, "none-without-collision", "no showdown although no hole card lies on the board".into());
            }
            return;
        }
        Ok(Some(sd)) => {
            if collides {
                fail(report, "some-with-collision", "a showdown was produced although a hole card lies on the board".into());
                return;
            }
            sd
        }
    };
    let n = case.players.len();
    if sd.players().len() != n {
        fail(report, "player-count", format!("{} players reported for {} given", sd.players().len(), n));
        return;
    }
    let b = sd.board();
    if (0..5).any(|k| cid(&b[k]) != case.board[k]) {
        fail(report, "board", "board() differs from the input".into());
    }
    if sd.probability().to_bits() != case.prob.to_bits() {
        fail(report, "probability", format!("probability() is {} for input {}", sd.probability(), case.prob));
    }
    let mut oracle: Vec<u16> = Vec::with_capacity(n);
    for (i, p) in case.players.iter().enumerate() {
        let seven = [case.board[0], case.board[1], case.board[2], case.board[3], case.board[4], p.0, p.1];
        oracle.push(match classes {
            Some(c) => c[i],
            None => class7(&seven),
        });
    }
    let best = oracle.iter().copied().min().unwrap_or(0);
    let mut flagged = 0usize;
    for (i, pl) in sd.players().iter().enumerate() {
        if pid_of(&pl.hole_cards()) != case.players[i] {
            fail(report, "order", format!("player {} holds {} in the result", i, pl.hole_cards()));
        }
        let cards = pl.cards();
        let pb = pl.board();
        let mut ok = (0..5).all(|k| cid(&cards[k]) == case.board[k] && cid(&pb[k]) == case.board[k]);
        ok &= pid(cid(&cards[5]), cid(&cards[6])) == case.players[i];
        if !ok {
            fail(report, "player-cards", format!("player {}: cards()/board() differ from the inputs", i));
        }
        let idx = pl.hand().power_index();
        if idx != oracle[i] {
            fail(report, "hand", format!("player {} is evaluated as index {} but holds class {}", i, idx, oracle[i]));
        }
        let own = catch(|| MadeHand::from(cards));
        if own.map(|m| m.power_index()) != Ok(idx) {
            fail(report, "hand-vs-own-cards", format!("player {}: hand() differs from the evaluation of cards()", i));
        }
        let should_win = oracle[i] == best;
        if pl.is_winner() != should_win {
            fail(
                report,
                "winner-flag",
                format!("player {} (class {}) is {}flagged as winner; the strongest class at the table is {} (classes {:?})", i, oracle[i], if pl.is_winner() { "" } else { "not " }, best, oracle),
            );
        }
        if pl.is_winner() {
            flagged += 1;
        }
    }
    let wl = sd.winner_len() as usize;
    if wl != flagged || wl == 0 {
        fail(report, "winner-len", format!("winner_len() = {} but {} players are flagged", wl, flagged));
    }
    tally.winner_len_hist[wl.min(23)] += 1;
    tally.players_hist[n.min(23)] += 1;
    if n > 1 && flagged == n {
        tally.all_tie += 1;
    }
    report.note_distinct(mix2(n as u64, {
        // winner-set pattern class
        let mut m = 0u64;
        for (i, c) in oracle.iter().enumerate() {
            if *c == best {
                m |= 1 << i;
            }
        }
        m
    }));
}

fn board(text: &str) -> [u8; 5] {
    let v = parse_cards_text(text).unwrap();
    [v[0], v[1], v[2], v[3], v[4]]
}

const TIE_BOARDS: [&str; 14] = [
    "AsKsQsJsTs", // royal flush on board: everybody ties
    "9h8h7h6h5h", // straight flush on board, higher ones possible
    "AsAhAdAcKs", // quads with the best kicker
    "7s7h7d7cKd", // quads, kicker plays
    "AsKdQhJcTs", // broadway on board
    "5s4d3h2cAd", // wheel on board
    "KsKhKd7s7h", // full house on board
    "Qs9s6s3s2s", // flush on board
    "AsAhKdKc7s", // two pair on board
    "JsJh8d5c2s", // paired
    "Th9h8h3s2d", // draws
    "AsKsQs7d2c",
    "6s6h6d2c2d",
    "2s3d5h8cTd",
];

enum Job {
    Random { n: u32, index: u64 },
    HeadsUp { board: [u8; 5], lo: usize, hi: usize },
    Collisions { index: u64 },
    TieBoards { index: u64 },
    /// consecutive calls that share the players and the turn/river (or the flop) and differ in the rest
    Consecutive { n: u32, index: u64 },
}

fn random_players(rng: &mut Rng, board: &[u8; 5], n: usize, share_ranks: bool) -> Vec<Pid> {
    let mut live: Vec<u8> = (0..52u8).filter(|c| !board.contains(c)).collect();
    if share_ranks {
        // bias towards few ranks so that multi-way ties occur
        let keep: Vec<u8> = rng.sample(13, 4).into_iter().map(|r| r as u8).collect();
        let biased: Vec<u8> = live.iter().copied().filter(|c| keep.contains(&(c / 4))).collect();
        if biased.len() >= 2 * n {
            live = biased;
        }
    }
    rng.shuffle(&mut live);
    (0..n).map(|i| pid(live[2 * i], live[2 * i + 1])).collect()
}


fn run_job(job: &Job, seed: u64, report: &mut Report, tally: &mut Tally) {
    match job {
            Job::Random { n, index } => {
                let mut rng = Rng::derive(seed, "c03-random", *index);
                for _ in 0..*n {
                    let v = rng.sample(52, 5);
                    let b = [v[0] as u8, v[1] as u8, v[2] as u8, v[3] as u8, v[4] as u8];
                    let n_players = if rng.chance(1, 40) { 11 + rng.usize_below(13) } else { 1 + rng.usize_below(10) };
                    let share = rng.chance(1, 2);
                    let players = random_players(&mut rng, &b, n_players, share);
                    let prob = crate::workload::random_weight(&mut rng);
                    check(&SdCase { board: b, players, prob }, None, report, tally);
                }
            }
            Job::HeadsUp { board, lo, hi } => {
                let live: Vec<u8> = (0..52u8).filter(|c| !board.contains(c)).collect();
                let mut combos: Vec<Pid> = Vec::with_capacity(1081);
                for (i, a) in live.iter().enumerate() {
                    for b in live.iter().skip(i + 1) {
                        combos.push((*a, *b));
                    }
                }
                let classes: Vec<u16> = combos.iter().map(|p| class7(&[board[0], board[1], board[2], board[3], board[4], p.0, p.1])).collect();
                for i in *lo..*hi {
                    for j in 0..combos.len() {
                        let (a, b) = (combos[i], combos[j]);
                        if a.0 == b.0 || a.0 == b.1 || a.1 == b.0 || a.1 == b.1 {
                            continue;
                        }
                        check(&SdCase { board: *board, players: vec![a, b], prob: 1.0 }, Some(&[classes[i], classes[j]]), report, tally);
                    }
                }
                report.count("heads_up_rows", (*hi - *lo) as u64);
            }
            Job::Collisions { index } => {
                let mut rng = Rng::derive(seed, "c03-collide", *index);
                let v = rng.sample(52, 5);
                let b = [v[0] as u8, v[1] as u8, v[2] as u8, v[3] as u8, v[4] as u8];
                // each board slot x each hole position x each player position
                for slot in 0..5 {
                    for hole in 0..2 {
                        for n_players in [1usize, 2, 3, 6] {
                            for seat in 0..n_players {
                                let mut players = random_players(&mut rng, &b, n_players, false);
                                let other = players[seat].1;
                                players[seat] = if hole == 0 { pid(b[slot], other) } else { pid(players[seat].0, b[slot]) };
                                check(&SdCase { board: b, players, prob: 0.5 }, None, report, tally);
                            }
                        }
                    }
                }
            }
            Job::Consecutive { n, index } => {
                let mut rng = Rng::derive(seed, "c03-consecutive", *index);
                for _ in 0..*n {
                    let n_players = 1 + rng.usize_below(6);
                    let mut deck: Vec<u8> = (0..52u8).collect();
                    rng.shuffle(&mut deck);
                    let players: Vec<Pid> = (0..n_players).map(|i| pid(deck[2 * i], deck[2 * i + 1])).collect();
                    let rest = &deck[2 * n_players..];
                    let (turn, river) = (rest[0], rest[1]);
                    // same players, same turn and river, five different flops in a row
                    for f in 0..5 {
                        let b = [rest[2 + 3 * f], rest[3 + 3 * f], rest[4 + 3 * f], turn, river];
                        check(&SdCase { board: b, players: players.clone(), prob: 1.0 }, None, report, tally);
                    }
                    // same flop, different turn/river; and the same board with the seats rotated
                    for t in 0..3 {
                        let b = [rest[2], rest[3], rest[4], rest[20 + 2 * t], rest[21 + 2 * t]];
                        check(&SdCase { board: b, players: players.clone(), prob: 0.5 }, None, report, tally);
                        let mut rotated = players.clone();
                        rotated.rotate_left(1);
                        check(&SdCase { board: b, players: rotated, prob: 0.5 }, None, report, tally);
                    }
                    // a refused call (hole card on the board, at a random seat) in between
                    let mut bad = players.clone();
                    let seat = rng.usize_below(n_players);
                    bad[seat] = pid(bad[seat].0, turn);
                    check(&SdCase { board: [rest[2], rest[3], rest[4], turn, river], players: bad, prob: 1.0 }, None, report, tally);
                    check(&SdCase { board: [rest[5], rest[6], rest[7], turn, river], players: players.clone(), prob: 1.0 }, None, report, tally);
                }
                report.count("consecutive_call_sequences", *n as u64);
            }
            Job::TieBoards { index } => {
                let mut rng = Rng::derive(seed, "c03-ties", *index);
                for t in TIE_BOARDS.iter() {
                    let b = board(t);
                    for n_players in 2..=10 {
                        let share = rng.chance(2, 3);
                        let players = random_players(&mut rng, &b, n_players, share);
                        check(&SdCase { board: b, players, prob: 1.0 }, None, report, tally);
                    }
                }
            }
    }
}

pub fn run(ctx: &Ctx) -> Report {
    let mut report = Report::new();
    if let Err(e) = ranker::self_check() {
        report.inconclusive(format!("oracle self-check failed: {}", e));
        return report;
    }
    let thorough = ctx.tier == Tier::Thorough;
    let mut jobs: Vec<Job> = Vec::new();
    for i in 0..ctx.tier.pick(400, 4000) {
        jobs.push(Job::Random { n: 1000, index: i as u64 });
    }
    let mut rng = Rng::derive(ctx.seed, "c03-boards", 0);
    let mut headsup_boards: Vec<[u8; 5]> = vec![board(TIE_BOARDS[0]), board(TIE_BOARDS[4]), board(TIE_BOARDS[6])];
    if thorough {
        for t in TIE_BOARDS.iter().skip(1) {
            headsup_boards.push(board(t));
        }
        for _ in 0..8 {
            let v = rng.sample(52, 5);
            headsup_boards.push([v[0] as u8, v[1] as u8, v[2] as u8, v[3] as u8, v[4] as u8]);
        }
    } else {
        let v = rng.sample(52, 5);
        headsup_boards.push([v[0] as u8, v[1] as u8, v[2] as u8, v[3] as u8, v[4] as u8]);
    }
    for b in &headsup_boards {
        let mut lo = 0;
        while lo < 1081 {
            jobs.push(Job::HeadsUp { board: *b, lo, hi: (lo + 60).min(1081) });
            lo += 60;
        }
    }
    for i in 0..ctx.tier.pick(8, 64) {
        jobs.push(Job::Collisions { index: i as u64 });
        jobs.push(Job::TieBoards { index: i as u64 });
    }
    for i in 0..ctx.tier.pick(40, 400) {
        jobs.push(Job::Consecutive { n: 100, index: i as u64 });
    }
    let seed = ctx.seed;
    let results = par_run(
        jobs.len(),
        1,
        |_| (Report::new(), Tally::default()),
        |(report, tally), j| run_job(&jobs[j], seed, report, tally),
    );
    let mut tally = Tally::default();
    for (r, t) in results {
        report.merge(r);
        for i in 0..24 {
            tally.winner_len_hist[i] += t.winner_len_hist[i];
            tally.players_hist[i] += t.players_hist[i];
        }
        tally.all_tie += t.all_tie;
        tally.collisions += t.collisions;
    }
    dev_pass(ctx, &mut report);
    let hist = |h: &[u64; 24]| {
        let mut o = Json::obj();
        for (i, c) in h.iter().enumerate() {
            if *c > 0 {
                o.put(&i.to_string(), Json::Int(*c as i128));
            }
        }
        o
    };
    report.set("winner_len_histogram", hist(&tally.winner_len_hist));
    report.set("player_count_histogram", hist(&tally.players_hist));
    report.set("showdowns_where_everybody_ties", Json::Int(tally.all_tie as i128));
    report.set("collision_cases_answered_none", Json::Int(tally.collisions as i128));
    report.set("boards_with_all_ordered_heads_up_pairs", Json::Int(headsup_boards.len() as i128));
    report.rule = "one execution = one call of Showdown::new checked against the five-card oracle (player order, per-player evaluation of its own seven cards, winner flags = exactly the holders of the strongest class, winner_len = flagged count >= 1, cards()/board()/probability() echo the inputs, None exactly when a hole card lies on the board); distinct = distinct (player count, winner-set pattern) classes".into();
    report.assumptions.push("players' hole cards are pairwise disjoint in every generated case (the statement's precondition); player counts 1..10 plus up to 23 (deck limit)".into());
    // samples
    let sample_cases = [
        SdCase { board: board("AsKsQsJsTs"), players: vec![pid(20, 21), pid(24, 25), pid(28, 29)], prob: 1.0 },
        SdCase { board: board("7s7h7d7cKd"), players: vec![pid(0, 5), pid(1, 9), pid(16, 17)], prob: 0.5 },
    ];
    for c in sample_cases {
        let input: Vec<_> = c.players.iter().map(|p| card_pair(*p)).collect();
        let b: [Card; 5] = [card(c.board[0]), card(c.board[1]), card(c.board[2]), card(c.board[3]), card(c.board[4])];
        if let Ok(Some(sd)) = catch(|| Showdown::new(input, b, c.prob)) {
            report.sample(
                c.to_json()
                    .set("observed_indexes", Json::arr(sd.players().iter().map(|p| Json::Int(p.hand().power_index() as i128))))
                    .set("observed_winner_flags", Json::arr(sd.players().iter().map(|p| Json::Bool(p.is_winner()))))
                    .set("observed_winner_len", Json::Int(sd.winner_len() as i128)),
            );
        }
    }
    report
}

/// Dev-profile batch (child built with overflow checks and debug assertions): random showdowns with
/// 1..23 players, tie boards, collisions; shard `part` of `parts`.
fn dev_batch(seed: u64, part: usize, parts: usize) -> Report {
    let mut jobs: Vec<Job> = Vec::new();
    for i in 0..24 {
        jobs.push(Job::Random { n: 1000, index: 900_000 + i });
    }
    for i in 0..6 {
        jobs.push(Job::Collisions { index: 900_000 + i });
        jobs.push(Job::TieBoards { index: 900_000 + i });
        jobs.push(Job::Consecutive { n: 20, index: 900_000 + i });
    }
    let mut report = Report::new();
    let mut tally = Tally::default();
    for (i, job) in jobs.iter().enumerate() {
        if i % parts == part {
            run_job(job, seed, &mut report, &mut tally);
        }
    }
    report.count("dev_profile_showdowns", report.evaluations);
    report.max("max_dev_profile_player_count", tally.players_hist.iter().rposition(|c| *c > 0).unwrap_or(0) as u64);
    report
}

fn dev_pass(ctx: &Ctx, report: &mut Report) {
    use crate::child::{self, ChildOutcome};
    let exe = match Ctx::exe_for("debug") {
        Some(e) => e,
        None => {
            report.inconclusive("no dev-profile binary available (VERIF_DEBUG_EXE not set)");
            return;
        }
    };
    let parts = 12usize;
    let results = par_run(parts, 1, |_| Report::new(), |r, part| {
        let case = Json::obj().set("kind", Json::str("dev-batch")).set("seed", Json::Int(ctx.seed as i128)).set("part", Json::Int(part as i128)).set("parts", Json::Int(parts as i128));
        match child::run_case(&exe, "C03", &case, 8 << 20, std::time::Duration::from_secs(900)) {
            ChildOutcome::Reported(doc) => {
                let ev = r.evaluations;
                child::merge_child_report(r, &doc, "debug:");
                r.evaluations = ev;
            }
            ChildOutcome::Crashed { signal, code, stack_overflow, stderr_tail } => r.violate(
                format!("debug:dev-batch-{}:crash", part),
                format!("[dev profile] the showdown batch {} died (signal {:?}, code {:?}, stack overflow {}): {}", part, signal, code, stack_overflow, stderr_tail),
                case,
            ),
            ChildOutcome::Timeout { after_s } => r.inconclusive(format!("dev-profile batch {} timed out after {:.0}s", part, after_s)),
            ChildOutcome::SpawnFailed(e) => r.inconclusive(format!("dev-profile batch {}: {}", part, e)),
        }
    });
    for r in results {
        report.merge(r);
    }
    child::cleanup_scratch();
}

pub fn replay(case: &Json) -> Report {
    let mut report = Report::new();
    if case.get("kind").and_then(|k| k.as_str()) == Some("dev-batch") {
        let get = |k: &str| case.get(k).and_then(|v| v.as_i128()).unwrap_or(0);
        return dev_batch(get("seed") as u64, get("part") as usize, (get("parts") as usize).max(1));
    }
    match SdCase::from_json(case) {
        Some(c) => check(&c, None, &mut report, &mut Tally::default()),
        None => report.inconclusive("replay case is not a showdown case"),
    }
    report
}
