//! One module per property.

use crate::core::{Ctx, Report};
use crate::json::Json;

pub mod c13;
pub mod c14;

pub const ALL: [&str; 17] = [
    "C01", "C02", "C03", "C04", "C05", "C06", "C07", "C08", "C09", "C10", "C11", "C12", "C13",
    "C14", "C15", "C16", "C17",
];

pub fn run(ctx: &Ctx) -> Option<Report> {
    Some(match ctx.id.as_str() {
        "C13" => c13::run(ctx),
        "C14" => c14::run(ctx),
        _ => return None,
    })
}

/// Re-runs one recorded case; returns a report holding the violations it reproduces.
pub fn replay(property: &str, case: &Json, ctx: &Ctx) -> Option<Report> {
    let _ = case;
    Some(match property {
        "C13" => c13::run(ctx),
        "C14" => c14::run(ctx),
        _ => return None,
    })
}

/// Internal entry for crash-isolated child processes (`verif child ...`).
pub fn child_main(args: &[String]) -> i32 {
    let _ = args;
    3
}
