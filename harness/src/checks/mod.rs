//! One module per property.

use crate::core::{Ctx, Report};
use crate::json::Json;

pub mod c01;
pub mod c02;
pub mod c03;
pub mod c04;
pub mod c05;
pub mod c06;
pub mod c08;
pub mod c09;
pub mod c11;
pub mod c12;
pub mod rangegen;
pub mod enumcase;
pub mod firstuse;
pub mod c13;
pub mod c14;
pub mod c15;
pub mod c16;
pub mod c17;

pub const ALL: [&str; 17] = [
    "C01", "C02", "C03", "C04", "C05", "C06", "C07", "C08", "C09", "C10", "C11", "C12", "C13",
    "C14", "C15", "C16", "C17",
];

pub fn run(ctx: &Ctx) -> Option<Report> {
    Some(match ctx.id.as_str() {
        "C01" => c01::run(ctx, c01::Which::C01),
        "C02" => c02::run(ctx),
        "C03" => c03::run(ctx),
        "C04" => c04::run(ctx),
        "C05" => c05::run(ctx),
        "C06" => c06::run(ctx),
        "C07" => c01::run(ctx, c01::Which::C07),
        "C08" => c08::run(ctx),
        "C09" => c09::run(ctx, c09::Which::C09),
        "C10" => c09::run(ctx, c09::Which::C10),
        "C11" => c11::run(ctx),
        "C12" => c12::run(ctx),
        "C13" => c13::run(ctx),
        "C14" => c14::run(ctx),
        "C15" => c15::run(ctx),
        "C16" => c16::run(ctx),
        "C17" => c17::run(ctx),
        _ => return None,
    })
}

/// Re-runs one recorded case; returns a report holding the violations it reproduces.
pub fn replay(property: &str, case: &Json, ctx: &Ctx) -> Option<Report> {
    if case.get("kind").and_then(|k| k.as_str()) == Some("first-use") {
        let what = case.get("what").and_then(|w| w.as_str()).unwrap_or("");
        if ctx.in_child {
            let names: Vec<String> = case.get("names").and_then(|n| n.as_arr()).map(|a| a.iter().filter_map(|s| s.as_str().map(|s| s.to_string())).collect()).unwrap_or_default();
            return Some(firstuse::child_body(what, &names));
        }
        let mut report = Report::new();
        firstuse::run_children(ctx, what, 12, &mut report);
        return Some(report);
    }
    Some(match property {
        "C01" => c01::replay(case, c01::Which::C01),
        "C02" => c02::replay(case),
        "C03" => c03::replay(case),
        "C04" => c04::replay(case),
        "C05" => c05::replay(case),
        "C06" => c06::replay(case),
        "C07" => c01::replay(case, c01::Which::C07),
        "C08" => c08::replay(case, ctx),
        "C09" => c09::replay(case, c09::Which::C09),
        "C10" => c09::replay(case, c09::Which::C10),
        "C11" => c11::replay(case),
        "C12" => c12::replay(case),
        "C13" => c13::run(ctx),
        "C14" => c14::run(ctx),
        "C15" => c15::replay(case, ctx),
        "C16" => c16::replay(case),
        "C17" => c17::replay(case),
        _ => return None,
    })
}

/// Internal entry for crash-isolated child processes:
/// `verif child <property> <case file> [--stack <bytes>]` re-runs one case on a thread with
/// the given stack size and prints what the monitors saw as one `CHILD-REPORT` line.
pub fn child_main(args: &[String]) -> i32 {
    if args.len() < 2 {
        eprintln!("usage: verif child <property> <case file> [--stack <bytes>]");
        return 3;
    }
    let property = args[0].clone();
    let text = match std::fs::read_to_string(&args[1]) {
        Ok(t) => t,
        Err(e) => {
            eprintln!("cannot read {}: {}", args[1], e);
            return 3;
        }
    };
    let case = match Json::parse(&text) {
        Ok(j) => j,
        Err(e) => {
            eprintln!("cannot parse {}: {}", args[1], e);
            return 3;
        }
    };
    let mut stack: usize = 2 << 20;
    if args.len() >= 4 && args[2] == "--stack" {
        stack = args[3].parse().unwrap_or(stack);
    }
    let handle = std::thread::Builder::new().stack_size(stack).spawn(move || {
        let mut ctx = Ctx::new(&property, crate::core::Tier::Quick, 0);
        ctx.in_child = true;
        replay(&property, &case, &ctx)
    });
    let report = match handle {
        Ok(h) => match h.join() {
            Ok(Some(r)) => r,
            Ok(None) => {
                eprintln!("no replay support for this property");
                return 3;
            }
            Err(_) => {
                eprintln!("child case thread panicked outside a monitored region");
                return 101;
            }
        },
        Err(e) => {
            eprintln!("cannot spawn case thread: {}", e);
            return 3;
        }
    };
    println!("CHILD-REPORT {}", crate::child::report_to_json(&report).to_string_compact());
    0
}
