//! C08 — enumeration always terminates, in bounded stack, without panicking,
//! in debug and in release builds. Every case is drained in a child process on a
//! 2 MiB thread (what `std::thread::spawn` gives the example's workers).

use super::enumcase::EnumCase;
use crate::child::{self, ChildOutcome};
use crate::conv::{all_pairs, parse_cards_text, pid, Combos};
use crate::core::{Ctx, Report, Tier};
use crate::drive::{self, BOUND_PANIC};
use crate::json::Json;
use crate::util::{catch, par_run, Rng};
use crate::workload::{clustered_range, random_range, textured_flop, WeightMode};
use std::time::Duration;

pub const STACK_BYTES: usize = 2 << 20;

/// Runs inside the child, on the 2 MiB thread: drain the evaluator under the hook monitor.
pub fn drain_in_child(case: &EnumCase) -> Report {
    let mut report = Report::new();
    let frame_probe = 0u8;
    let base = std::hint::black_box(&frame_probe) as *const u8 as usize;
    let (ranges, cfg) = match case.build() {
        Ok(v) => v,
        Err(e) => {
            report.inconclusive(format!("case {} cannot be built: {}", case.label, e));
            return report;
        }
    };
    drive::reset_budget();
    let product = cfg.product();
    // empty ranges count as one entry in the bound: showdowns dealt around an empty seat are judged as showdowns
    let bound_product: u128 = cfg.ranges.iter().fold(1u128, |a, r| a.saturating_mul(r.len().max(1) as u128));
    let bound: u64 = if bound_product < (u64::MAX / 4096) as u128 { (bound_product as u64).saturating_mul(1176).saturating_add(16) } else { 0 };
    let any_empty = cfg.ranges.iter().any(|r| r.is_empty());
    let stats = drive::install_stats_sink(bound);
    let mut yielded = 0u64;
    let mut extra_nones_ok = true;
    let mut other_drains_agree = true;
    let mut explicit_scope_agrees = true;
    let outcome = catch(|| {
        let mut it = drive::evaluator(&cfg, &ranges, None).into_iter();
        while let Some(_sd) = it.next() {
            stats.borrow_mut().since_last_yield = 0;
            yielded += 1;
        }
        // "afterwards stays exhausted" belongs to C04; here only: further calls return normally
        for _ in 0..3 {
            if it.next().is_some() {
                extra_nones_ok = false;
            }
        }
        // size_hint() on a fresh iterator, before the first next(): collect(), extend() and unzip() ask for it first,
        // whatever the sizes of the ranges (a hint computed from the product of the sizes must not overflow)
        let _ = drive::evaluator(&cfg, &ranges, None).into_iter().size_hint();
        // the same drain with the scope given explicitly: the whole line, and from a later position to the terminal
        if product <= 2000 {
            {
                let mut st = stats.borrow_mut();
                if st.bound > 0 {
                    st.bound = st.bound.saturating_mul(3);
                }
            }
            let whole = drive::evaluator(&cfg, &ranges, Some(((0, 1), (48, 49)))).into_iter().count() as u64;
            let tail_from = crate::refmodel::scope::from_linear((cfg.flop[0] as usize * 31 + cfg.flop[1] as usize) % 1176);
            let tail = drive::evaluator(&cfg, &ranges, Some((tail_from, (48, 49)))).into_iter().count() as u64;
            if whole != yielded || tail > yielded {
                explicit_scope_agrees = false;
            }
        }
        // the other ways a caller drains an iterator: size_hint() between calls, collect(), count()
        if product <= 200 {
            // three more complete drains follow: the considered-deals bound covers all four
            {
                let mut st = stats.borrow_mut();
                if st.bound > 0 {
                    st.bound = st.bound.saturating_mul(4);
                }
            }
            let mut it = drive::evaluator(&cfg, &ranges, None).into_iter();
            let mut n = 0u64;
            loop {
                let _ = it.size_hint();
                if it.next().is_none() {
                    break;
                }
                n += 1;
            }
            let _ = it.size_hint();
            let collected = drive::evaluator(&cfg, &ranges, None).into_iter().collect::<Vec<_>>().len() as u64;
            let counted = drive::evaluator(&cfg, &ranges, None).into_iter().count() as u64;
            if n != yielded || collected != yielded || counted != yielded {
                other_drains_agree = false;
            }
        }
    });
    drive::remove_sink();
    let st = stats.borrow().clone();
    report.evaluations = 1;
    let sig = case.signature();
    let case_json = case.to_json();
    match &outcome {
        Err(p) if p.contains(BOUND_PANIC) => report.violate(
            format!("{}:non-termination", sig),
            format!("{}: the iteration does not advance (bound 1176 x prod(len) + 16 = {} considered deals): {}", case.label, bound, p),
            case_json.clone(),
        ),
        Err(p) => report.violate(
            format!("{}:panic@{}", sig, crate::util::panic_site(p)),
            format!("{}: iterating panicked after {} showdowns: {}", case.label, yielded, p),
            case_json.clone(),
        ),
        Ok(()) => {}
    }
    if any_empty && yielded > 0 {
        report.violate(format!("{}:empty-range-yields", sig), format!("{}: a player has an empty range but {} showdowns were yielded", case.label, yielded), case_json.clone());
    }
    let peak = if st.min_stack_addr != 0 && base > st.min_stack_addr { base - st.min_stack_addr } else { 0 };
    report.count("showdowns_yielded", yielded);
    report.count("deals_considered_hook", st.deals_considered);
    report.max("max_blocked_run", st.max_blocked_run);
    report.max("max_next_depth", st.max_depth as u64);
    report.max("max_peak_stack_bytes_in_next", peak as u64);
    report.max("max_odometer_index_reached", st.max_player_index as u64);
    if !extra_nones_ok {
        report.count("yield_after_exhaustion", 1);
    }
    if !explicit_scope_agrees {
        report.violate(format!("{}:explicit-scope", sig), format!("{}: with the scope given explicitly as (0,1)..(48,49) the run yields another number of showdowns than with the default scope", case.label), case_json.clone());
    }
    if !other_drains_agree {
        report.count("collect_or_count_disagrees_with_next_loop", 1);
    }
    report
}

fn flop(text: &str) -> [u8; 3] {
    let v = parse_cards_text(text).unwrap();
    [v[0], v[1], v[2]]
}

fn combos_of(text: &str) -> Combos {
    text.split(',')
        .filter(|t| !t.is_empty())
        .map(|t| {
            let v = parse_cards_text(t).unwrap();
            (pid(v[0], v[1]), 1.0)
        })
        .collect()
}

/// (case, profiles to run it under)
pub fn cases(tier: Tier, seed: u64) -> Vec<(EnumCase, Vec<&'static str>)> {
    let both = vec!["release", "debug"];
    let mut v: Vec<(EnumCase, Vec<&'static str>)> = Vec::new();
    let all: Combos = all_pairs().into_iter().map(|p| (p, 1.0)).collect();
    let mut rng = Rng::derive(seed, "c08-cases", 0);

    // a combo lying on the flop: every deal is blocked (longest possible blocked run)
    let f = flop("2h3h9c");
    v.push((EnumCase::parsed("onflop-vs-AA-KK-QQ", f, &["2h3h", "AA,KK,QQ"]), both.clone()));
    v.push((EnumCase::parsed("AA-KK-QQ-vs-onflop", f, &["AA,KK,QQ", "2h3h"]), both.clone()));
    for k in [1usize, 6, 100, 300] {
        v.push((EnumCase::collect(&format!("onflop-vs-{}", k), f, vec![combos_of("2h3h"), random_range(&mut rng, k, WeightMode::Family)]), both.clone()));
    }
    v.push((EnumCase::collect("onflop-alone", f, vec![combos_of("2h9c")]), both.clone()));
    v.push((EnumCase::collect("all-blocked-3p", f, vec![random_range(&mut rng, 20, WeightMode::AllOne), combos_of("2h3h,3h9c"), random_range(&mut rng, 20, WeightMode::AllOne)]), both.clone()));
    // a single combo beside every combo: its cards block whole turn rows
    v.push((EnumCase::collect("AsKs-vs-all", flop("2h2d2c"), vec![combos_of("AsKs"), all.clone()]), both.clone()));
    v.push((EnumCase::collect("all-vs-AsKs", flop("2h2d2c"), vec![all.clone(), combos_of("AsKs")]), both.clone()));
    // sizes around the old u8 limit in every player position
    for size in [0usize, 1, 2, 255, 256, 257, 300, 1326] {
        let a = random_range(&mut rng, size, WeightMode::Family);
        let small = random_range(&mut rng, 2, WeightMode::AllOne);
        v.push((EnumCase::collect(&format!("size-{}-alone", size), textured_flop(&mut rng, size), vec![a.clone()]), both.clone()));
        v.push((EnumCase::collect(&format!("size-{}-first", size), textured_flop(&mut rng, size + 1), vec![a.clone(), small.clone()]), both.clone()));
        v.push((EnumCase::collect(&format!("size-{}-last", size), textured_flop(&mut rng, size + 2), vec![small.clone(), a.clone()]), both.clone()));
        if size <= 300 {
            v.push((EnumCase::collect(&format!("size-{}-middle", size), textured_flop(&mut rng, size + 3), vec![small.clone(), a.clone(), small.clone()]), both.clone()));
        }
    }
    // many wide ranges beside one empty range: nothing can be dealt, so the run is empty at once, but every quantity
    // derived from the product of the range sizes (1326^7 > 2^64) is exercised
    v.push((EnumCase::collect("wide-7p-empty-last", flop("2h2d2c"), { let mut r = vec![all.clone(); 7]; r.push(vec![]); r }), both.clone()));
    v.push((EnumCase::collect("wide-6p-empty-first", flop("AsKd2h"), { let mut r = vec![vec![]]; r.extend(vec![all.clone(); 6]); r }), both.clone()));
    // no players at all
    v.push((EnumCase::collect("no-players", flop("AsKd2h"), vec![]), both.clone()));
    // all ranges empty
    v.push((EnumCase::collect("all-empty", flop("AsKd2h"), vec![vec![], vec![]]), both.clone()));
    v.push((EnumCase::parsed("parsed-empty-string", flop("AsKd2h"), &["", "AA"]), both.clone()));
    v.push((EnumCase::parsed("parsed-only-invalid-tokens", flop("AsKd2h"), &["AA", "xx,yy"]), both.clone()));
    // many players with mutually blocking narrow ranges
    for n in [6usize, 8, 10] {
        let cards: Vec<u8> = rng.sample(52, 2 * n + 2).into_iter().map(|c| c as u8).collect();
        let per = if n >= 10 { 2 } else { 3 };
        let ranges: Vec<Combos> = (0..n).map(|_| clustered_range(&mut rng, &cards, per, WeightMode::Family)).collect();
        v.push((EnumCase::collect(&format!("crowd-{}p", n), textured_flop(&mut rng, n), ranges), both.clone()));
    }
    // a full table and beyond (17..23 seats: every unseen card but a few is in somebody's hand)
    for n in [16usize, 17, 20, 23] {
        let f = textured_flop(&mut rng, n);
        let mut live: Vec<u8> = (0..52u8).filter(|c| !f.contains(c)).collect();
        rng.shuffle(&mut live);
        let ranges: Vec<Combos> = (0..n).map(|i| vec![(pid(live[2 * i], live[2 * i + 1]), 1.0)]).collect();
        v.push((EnumCase::collect(&format!("seats-{}", n), f, ranges), both.clone()));
    }
    // ranges whose every combo has weight exactly 0 (still real hands: the deals exist, with probability 0)
    for (i, size) in [1usize, 6, 300].iter().enumerate() {
        let zero: Combos = random_range(&mut rng, *size, WeightMode::AllOne).into_iter().map(|(p, _)| (p, 0.0)).collect();
        let other = random_range(&mut rng, 3, WeightMode::Family);
        v.push((EnumCase::collect(&format!("all-zero-{}-alone", size), textured_flop(&mut rng, i), vec![zero.clone()]), both.clone()));
        v.push((EnumCase::collect(&format!("all-zero-{}-first", size), textured_flop(&mut rng, i + 1), vec![zero.clone(), other.clone()]), both.clone()));
        v.push((EnumCase::collect(&format!("all-zero-{}-last", size), textured_flop(&mut rng, i + 2), vec![other.clone(), zero.clone()]), both.clone()));
    }
    v.push((EnumCase::parsed("parsed-zero-weights", flop("7c4d2h"), &["QQ:0", "AKs:0.0,JJ"]), both.clone()));
    v.push((EnumCase::parsed("parsed-underflowing-weight", flop("7c4d2h"), &["77:0.0000000000000000000000000000000000000000000001", "AA:0.0000000000000000000000000000000000000000000014"]), both.clone()));
    // the same combo for everybody: nothing is ever dealt
    v.push((EnumCase::collect("same-combo-4p", flop("2h2d2c"), vec![combos_of("AsKs"); 4]), both.clone()));
    // random lists within a deal budget
    let n_random = tier.pick(24, 160);
    for i in 0..n_random {
        let players = 1 + rng.usize_below(4);
        let mut ranges = Vec::new();
        let mut product: u128 = 1;
        for _ in 0..players {
            let size = match rng.below(8) {
                0 => 0,
                1 => 1,
                _ => 1 + rng.usize_below(if players <= 2 { 40 } else { 9 }),
            };
            product *= size.max(1) as u128;
            ranges.push(random_range(&mut rng, size, WeightMode::Random));
        }
        if product > 1500 {
            continue;
        }
        v.push((EnumCase::collect(&format!("random-{}", i), textured_flop(&mut rng, i), ranges), both.clone()));
    }
    if tier == Tier::Thorough {
        // larger products: release only (the dev profile costs ~30x per deal)
        for (a, b) in [(1326usize, 30usize), (30, 1326), (400, 400), (1326, 100)] {
            v.push((EnumCase::collect(&format!("big-{}x{}", a, b), textured_flop(&mut rng, a + b), vec![random_range(&mut rng, a, WeightMode::Family), random_range(&mut rng, b, WeightMode::Family)]), vec!["release"]));
        }
        for k in [600usize, 1326] {
            v.push((EnumCase::collect(&format!("onflop-vs-{}", k), f, vec![combos_of("2h3h"), random_range(&mut rng, k, WeightMode::Family)]), both.clone()));
        }
        v.push((EnumCase::collect("all-vs-3", flop("2h2d2c"), vec![all.clone(), random_range(&mut rng, 3, WeightMode::AllOne)]), both.clone()));
    }
    v
}

fn timeout_for(case: &EnumCase, profile: &str) -> Duration {
    let product: f64 = case.ranges.iter().map(|r| r.len().max(1) as f64).product::<f64>().max(1.0);
    let deals = 1176.0 * product.max(300.0);
    let per_deal = if profile == "debug" { 20e-6 } else { 1.5e-6 };
    Duration::from_secs_f64((60.0 + 20.0 * deals * per_deal).min(7200.0))
}

/// Parent side: run one case under one profile in a child and classify the outcome.
pub fn run_profile(case: &EnumCase, profile: &str, report: &mut Report) {
    let exe = match Ctx::exe_for(profile) {
        Some(e) => e,
        None => {
            report.inconclusive(format!("no {}-profile binary available (VERIF_DEBUG_EXE not set)", profile));
            return;
        }
    };
    let mut case_json = case.to_json();
    case_json.put("profile", Json::str(profile));
    let sig = format!("{}:{}", case.signature(), profile);
    report.evaluations += 1;
    match child::run_case(&exe, "C08", &case_json, STACK_BYTES, timeout_for(case, profile)) {
        ChildOutcome::Reported(doc) => {
            let before = report.violation_count;
            // the child's evaluations were already counted above
            let ev = report.evaluations;
            child::merge_child_report(report, &doc, &format!("{}:", profile));
            report.evaluations = ev;
            if report.violation_count == before {
                report.count(&format!("clean_exits_{}", profile), 1);
            }
        }
        ChildOutcome::Crashed { signal, code, stack_overflow, stderr_tail } => {
            let kind = if stack_overflow { "stack-overflow".to_string() } else { format!("abort(signal={:?},code={:?})", signal, code) };
            report.count(&format!("crashes_{}", profile), 1);
            report.violate(
                format!("{}:{}", sig, kind),
                format!("{} [{} build, 2 MiB thread]: the process died: {} [{}]", case.label, profile, kind, stderr_tail),
                case_json,
            );
        }
        ChildOutcome::Timeout { after_s } => report.inconclusive(format!("{} [{}]: watchdog fired after {:.0}s", case.label, profile, after_s)),
        ChildOutcome::SpawnFailed(e) => report.inconclusive(format!("{} [{}]: {}", case.label, profile, e)),
    }
}

pub fn run(ctx: &Ctx) -> Report {
    let cases = cases(ctx.tier, ctx.seed);
    let mut jobs: Vec<(usize, &'static str)> = Vec::new();
    for (i, (_, profiles)) in cases.iter().enumerate() {
        for p in profiles {
            jobs.push((i, p));
        }
    }
    // expensive ones first
    jobs.sort_by_key(|(i, p)| {
        let c = &cases[*i].0;
        let product: u128 = c.ranges.iter().map(|r| r.len().max(1) as u128).product();
        std::cmp::Reverse(product * if *p == "debug" { 30 } else { 1 })
    });
    let results = par_run(
        jobs.len(),
        1,
        |_| Report::new(),
        |report, j| {
            let (i, profile) = jobs[j];
            let case = &cases[i].0;
            run_profile(case, profile, report);
            report.note_distinct(crate::util::mix2(case.hash(), profile.len() as u64));
            if matches!(case.label.as_str(), "onflop-vs-AA-KK-QQ" | "AsKs-vs-all" | "size-256-first" | "size-0-middle" | "crowd-10p") {
                report.sample(case.summary().set("profile", Json::str(profile)));
            }
        },
    );
    let mut report = Report::new();
    for r in results {
        report.merge(r);
    }
    child::cleanup_scratch();
    report.rule = "one execution = one complete drain of the real evaluator for one (case, build profile) in a child process on a 2 MiB thread; the parent classifies the wait status (clean exit with the monitors' summary / panic caught inside / stack overflow or abort), the hook counts the deals considered (bound 1176 x prod(len) + 16), the longest run of blocked deals, the nesting depth and the lowest stack address inside next(); distinct = distinct (case, profile) pairs".into();
    report.assumptions.push("dev profile = espada built like `cargo build` (opt-level 0, overflow checks and debug assertions on); release = `cargo build --release` (wrapping arithmetic)".into());
    report.assumptions.push("a watchdog firing is inconclusive, never a violation".into());
    report
}

pub fn replay(case: &Json, ctx: &Ctx) -> Report {
    let mut report = Report::new();
    let c = match EnumCase::from_json(case) {
        Some(c) => c,
        None => {
            report.inconclusive("replay case is not an enumeration case");
            return report;
        }
    };
    if ctx.in_child {
        return drain_in_child(&c);
    }
    let profile = case.get("profile").and_then(|p| p.as_str()).unwrap_or("release").to_string();
    run_profile(&c, &profile, &mut report);
    child::cleanup_scratch();
    report
}
