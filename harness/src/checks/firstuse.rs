//! First-use races: lazily initialised process-wide state (tables, caches) is most fragile at the very
//! first calls of a process. A fresh child process releases many threads from one spin gate, each of which
//! immediately uses the API and compares with the oracle. Several children are run per check.

use crate::child::{self, ChildOutcome};
use crate::conv::{card, card_pair, card_text, cards_text, parse_cards_text, pid};
use crate::core::{Ctx, Report};
use crate::json::Json;
use crate::refmodel::ranker::{best7, category_name, ClassTable};
use crate::util::{catch, Rng};
use espada::card::Card;
use espada::evaluator::MadeHand;
use espada::hand_range::{CardPair, HandRange};
use std::sync::atomic::{AtomicBool, AtomicUsize, Ordering};

fn probe(what: &str, thread: usize, names: &[String]) -> Vec<String> {
    let mut problems: Vec<String> = Vec::new();
    let mut rng = Rng::new(0xF1857 + thread as u64);
    match what {
        "cards" => {
            let mut ids: Vec<u8> = (0..52).collect();
            rng.shuffle(&mut ids);
            for id in ids {
                let text = card_text(id);
                match catch(|| text.parse::<Card>()) {
                    Ok(Ok(c)) if c == card(id) => {}
                    other => problems.push(format!("'{}' parses to {:?}", text, other.map(|r| r.ok()))),
                }
                match catch(|| card(id).to_string()) {
                    Ok(t) if t == text => {}
                    other => problems.push(format!("{} formats as {:?}", text, other)),
                }
                match catch(|| Card::from(u64::from(card(id)))) {
                    Ok(c) if c == card(id) => {}
                    other => problems.push(format!("{} -> bit -> {:?}", text, other)),
                }
            }
        }
        "pairs" => {
            for _ in 0..300 {
                let v = rng.sample(52, 2);
                let (a, b) = (v[0] as u8, v[1] as u8);
                let text = format!("{}{}", card_text(a), card_text(b));
                let want = card_pair(pid(a, b));
                match catch(|| text.parse::<CardPair>()) {
                    Ok(Ok(p)) if p == want && crate::conv::cid(&p[0]) == a.min(b) => {}
                    other => problems.push(format!("'{}' parses to {:?}", text, other.map(|r| r.ok()))),
                }
                match catch(|| CardPair::new(card(a), card(b)).to_string()) {
                    Ok(t) if t == crate::conv::pair_text(pid(a, b)) => {}
                    other => problems.push(format!("new({}) formats as {:?}", text, other)),
                }
            }
        }
        "eval" => {
            let table = ClassTable::get();
            let hands = [
                "AsKsQsJsTs2h2d", "5s4s3s2sAs9d9h", "AsAhAdAcKs2d3h", "2s2h2d2c3s3h3d", "AsAhAdKsKh2c3d", "2s2h2d3s3h5c7d", "AsKsQsJs9s2h3d", "7s5s4s3s2sKdKh", "AsKhQdJcTs2h2d",
                "5s4h3d2cAsKdKh", "AsAhAdKsQh2c3d", "2s2h2d4s3h7c8d", "AsAhKsKhQd2c3d", "3s3h2s2h4d7c8d", "AsAhKsQhJd2c3d", "2s2h5s4h3d7c8d", "AsKhQdJc9s2h3d", "7s5h4d3c2s8h9d",
            ];
            // every thread starts with another hand, the weak ones (late table slots) first
            let n = hands.len();
            for round in 0..4 * n {
                {
                    let h = hands[(2 * n - 3 - (thread % (n - 2)) + round) % n];
                    let ids = parse_cards_text(h).unwrap();
                    let mut order = [ids[0], ids[1], ids[2], ids[3], ids[4], ids[5], ids[6]];
                    rng.shuffle(&mut order);
                    let cards = [card(order[0]), card(order[1]), card(order[2]), card(order[3]), card(order[4]), card(order[5]), card(order[6])];
                    let key = best7(&order);
                    match catch(|| {
                        let m = MadeHand::from(cards);
                        (m.power_index(), format!("{:?}", m.hand_type()))
                    }) {
                        Ok((idx, name)) if idx == table.class_of(key) && (name == category_name(key) || names.get(crate::refmodel::ranker::category(key)).map(|n| *n == name).unwrap_or(false)) => {}
                        other => problems.push(format!("{} evaluates to {:?}, expected class {} ({})", cards_text(&order), other, table.class_of(key), category_name(key))),
                    }
                }
            }
        }
        "notation" => {
            for (text, combos) in [("QQ+", 18usize), ("A9s+:0.5", 20), ("88-66", 18), ("AQs-A9s:0.25", 16), ("72o", 12), ("KsAs", 1), ("22+,A2s+,KQo", 78 + 48 + 12)] {
                match catch(|| text.parse::<HandRange>().map(|r| r.card_pairs().len())) {
                    Ok(Ok(n)) if n == combos => {}
                    other => problems.push(format!("'{}' parses to {:?} combos, expected {}", text, other, combos)),
                }
                let back = catch(|| text.parse::<HandRange>().map(|r| r.to_string().parse::<HandRange>().map(|b| b == r)));
                if !matches!(back, Ok(Ok(Ok(true)))) {
                    problems.push(format!("'{}' does not survive format -> parse: {:?}", text, back));
                }
            }
        }
        _ => problems.push(format!("unknown probe '{}'", what)),
    }
    problems
}

/// Runs inside the fresh child process.
pub fn child_body(what: &str, names: &[String]) -> Report {
    let mut report = Report::new();
    let threads = 16usize;
    let ready = AtomicUsize::new(0);
    let go = AtomicBool::new(false);
    let results: Vec<Vec<String>> = std::thread::scope(|scope| {
        let mut handles = Vec::new();
        for t in 0..threads {
            let (ready, go) = (&ready, &go);
            handles.push(scope.spawn(move || {
                ready.fetch_add(1, Ordering::SeqCst);
                while !go.load(Ordering::Acquire) {
                    std::hint::spin_loop();
                }
                probe(what, t, names)
            }));
        }
        while ready.load(Ordering::SeqCst) < threads {
            std::hint::spin_loop();
        }
        go.store(true, Ordering::Release);
        handles.into_iter().map(|h| h.join().unwrap_or_else(|_| vec!["probe thread panicked".to_string()])).collect()
    });
    report.evaluations = threads as u64;
    for (t, problems) in results.into_iter().enumerate() {
        for p in problems.into_iter().take(3) {
            report.violate(
                format!("first-use:{}:{}", what, crate::util::hash_str(&p) % 100_000),
                format!("at the first use of the API in a fresh process, with {} threads released at once (thread {}): {}", threads, t, p),
                Json::obj().set("kind", Json::str("first-use")).set("what", Json::str(what)),
            );
        }
    }
    report
}

/// Parent side: `children` fresh processes.
pub fn run_children(ctx: &Ctx, what: &str, children: usize, report: &mut Report) {
    run_children_with(ctx, what, children, &[], report)
}

/// `names`: the category names this build uses (observed by the parent), so that a renamed variant is no alarm.
pub fn run_children_with(ctx: &Ctx, what: &str, children: usize, names: &[String], report: &mut Report) {
    let exe = match std::env::current_exe() {
        Ok(e) => e,
        Err(_) => return,
    };
    let case = Json::obj().set("kind", Json::str("first-use")).set("what", Json::str(what)).set("names", Json::strs(names.iter().cloned()));
    for _ in 0..children {
        report.evaluations += 1;
        report.count("first_use_race_processes", 1);
        match child::run_case(&exe, &ctx.id, &case, 8 << 20, std::time::Duration::from_secs(300)) {
            ChildOutcome::Reported(doc) => {
                let ev = report.evaluations;
                child::merge_child_report(report, &doc, "");
                report.evaluations = ev;
            }
            ChildOutcome::Crashed { signal, code, stack_overflow, stderr_tail } => report.violate(
                format!("first-use:{}:crash", what),
                format!("a fresh process died at its first concurrent use of the API (signal {:?}, code {:?}, stack overflow {}): {}", signal, code, stack_overflow, stderr_tail),
                case.clone(),
            ),
            ChildOutcome::Timeout { after_s } => report.inconclusive(format!("first-use child timed out after {:.0}s", after_s)),
            ChildOutcome::SpawnFailed(e) => report.inconclusive(format!("first-use child: {}", e)),
        }
    }
    child::cleanup_scratch();
}
