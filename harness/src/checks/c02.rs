//! C02 — flop enumeration yields every legal deal exactly once and nothing else.

use super::enumcase::EnumCase;
use crate::conv::{all_pairs, cards_text, pair_text, parse_cards_text, pid, Combos, Pid};
use crate::core::{Ctx, Report, Tier};
use crate::drive::{self, view, view_text, EnumMonitor, BOUND_PANIC};
use crate::json::Json;
use crate::refmodel::enumerate::{deals_at, deck49, expected_buckets, Bucket, Config};
use crate::refmodel::scope::{from_linear, POSITIONS};
use crate::util::{catch, par_run, Rng};
use crate::workload::{clustered_range, notation_range, random_range, textured_flop, WeightMode};

pub struct CaseStats {
    pub expected: u64,
    pub yielded: u64,
    pub considered: u64,
    pub max_player_index: usize,
    pub max_blocked_run: u64,
    pub max_depth: u32,
    pub stack_span: usize,
    pub river_before_turn: u64,
}

/// Drives the real evaluator over one case under the boundary monitor and compares the
/// outcome with R3. Violations go to `report`; returns what was observed.
pub fn run_case(case: &EnumCase, report: &mut Report, property: &str) -> Option<CaseStats> {
    let (ranges, cfg) = match case.build() {
        Ok(v) => v,
        Err(e) => {
            report.inconclusive(format!("case {} cannot be built: {}", case.label, e));
            return None;
        }
    };
    drive::reset_budget();
    if let Some(limit) = case.limit {
        return run_limited(case, &ranges, &cfg, limit, report);
    }
    // a range must not hold one combo under two keys: every deal with it would come out twice
    for (i, r) in ranges.iter().enumerate() {
        if let Some(d) = super::rangegen::duplicate_physical_combo(r) {
            report.violate(
                format!("{}:range-holds-combo-twice", case.signature()),
                format!("{}: the range of player {} holds one combo under two keys ({}), so its deals are enumerated twice", case.label, i, d),
                case.to_json(),
            );
            return None;
        }
    }
    let expected: Vec<Bucket> = expected_buckets(&cfg);
    let expected_total: u64 = expected.iter().map(|b| b.count).sum();
    let product = cfg.product();
    // empty ranges count as one entry in the bound: showdowns dealt around an empty seat are judged as showdowns
    let bound_product: u128 = cfg.ranges.iter().fold(1u128, |a, r| a.saturating_mul(r.len().max(1) as u128));
    let bound: u64 = if bound_product < (u64::MAX / 4096) as u128 { (bound_product as u64).saturating_mul(1176).saturating_add(16) } else { 0 };

    let stats = drive::install_stats_sink(bound);
    let mut monitor = EnumMonitor::new(&cfg);
    let mut overflow = false;
    let outcome = catch(|| {
        for sd in drive::evaluator(&cfg, &ranges, None) {
            stats.borrow_mut().since_last_yield = 0;
            monitor.observe(&sd);
            if monitor.yielded > expected_total + 1000 {
                overflow = true;
                break;
            }
        }
    });
    drive::remove_sink();
    let st = stats.borrow().clone();
    let case_json = case.to_json();
    let sig = case.signature();

    report.evaluations += 1;
    if let Err(p) = &outcome {
        if p.contains(BOUND_PANIC) {
            report.violate(format!("{}:non-termination", sig), format!("{}: more than 1176 x prod(len) = {} deals considered; the enumeration does not advance ({})", case.label, bound, cfg_short(&cfg)), case_json.clone());
        } else {
            report.violate(format!("{}:panic@{}", sig, crate::util::panic_site(p)), format!("{}: iterating panicked after {} showdowns: {} ({})", case.label, monitor.yielded, p, cfg_short(&cfg)), case_json.clone());
        }
    }
    if overflow {
        report.violate(format!("{}:too-many", sig), format!("{}: more than the {} legal deals were yielded ({})", case.label, expected_total, cfg_short(&cfg)), case_json.clone());
    }
    if let Some((kind, text)) = &monitor.first_problem {
        report.violate(format!("{}:{}", sig, kind), format!("{}: {} ({} such showdowns; {})", case.label, text, monitor.problems, cfg_short(&cfg)), case_json.clone());
    }
    if outcome.is_ok() && !overflow {
        // multiset comparison, position by position
        if let Some(i) = (0..POSITIONS).find(|i| monitor.buckets[*i] != expected[*i]) {
            let pos = from_linear(i);
            let witness = exact_diff(&cfg, &ranges, pos);
            report.violate(
                format!("{}:deals-differ", sig),
                format!(
                    "{}: yielded {} showdowns, {} legal deals exist; first differing board position {:?}: {} ({})",
                    case.label, monitor.yielded, expected_total, pos, witness, cfg_short(&cfg)
                ),
                case_json.clone(),
            );
        }
    }
    // the same enumeration through the iterator adaptors of std: nth/skip/step_by/take/last/count
    if outcome.is_ok() && !overflow && expected_total > 0 && expected_total <= 12_000 && st.deals_considered <= 150_000 {
        adaptor_agreement(case, &cfg, &ranges, report);
    }
    if property == "C02" && st.deals_considered == 0 && product > 0 {
        report.inconclusive(format!("{}: the deal hook never fired", case.label));
    }
    Some(CaseStats {
        expected: expected_total,
        yielded: monitor.yielded,
        considered: st.deals_considered,
        max_player_index: st.max_player_index,
        max_blocked_run: st.max_blocked_run,
        max_depth: st.max_depth,
        stack_span: st.stack_span(),
        river_before_turn: monitor.river_before_turn,
    })
}

/// A case whose complete enumeration is out of reach (the product of the range sizes is beyond 2^32):
/// the first `limit` showdowns must be legal, pairwise different deals, and the run must not end before
/// `limit` of them came out when at least that many legal deals exist (counted by R3 with early exit).
fn run_limited(case: &EnumCase, ranges: &Vec<espada::hand_range::HandRange>, cfg: &Config, limit: u64, report: &mut Report) -> Option<CaseStats> {
    let at_least = crate::refmodel::enumerate::count_capped(cfg, limit);
    let stats = drive::install_stats_sink(0);
    let mut monitor = EnumMonitor::new(cfg);
    let mut seen: std::collections::HashSet<(u64, u64)> = std::collections::HashSet::new();
    let mut duplicates = 0u64;
    // the product is beyond any considered-deals bound: the cycle detector of the guard (drive.rs) watches the odometer state
    let outcome = catch(|| {
        for sd in drive::evaluator(cfg, ranges, None) {
            let v = monitor.observe(&sd);
            if !seen.insert(crate::refmodel::enumerate::deal_hash(v.board[3], v.board[4], &v.combos)) {
                duplicates += 1;
            }
            if monitor.yielded >= limit {
                break;
            }
        }
    });
    drive::remove_sink();
    let st = stats.borrow().clone();
    let sig = case.signature();
    let case_json = case.to_json();
    report.evaluations += 1;
    report.count("limited_runs_on_products_beyond_2_pow_32", 1);
    if let Err(p) = &outcome {
        if p.contains(BOUND_PANIC) {
            report.violate(format!("{}:non-termination", sig), format!("{}: after {} showdowns the enumeration stopped advancing: {} ({})", case.label, monitor.yielded, p, cfg_short(cfg)), case_json.clone());
        } else {
            report.violate(format!("{}:panic@{}", sig, crate::util::panic_site(p)), format!("{}: iterating panicked after {} showdowns: {} ({})", case.label, monitor.yielded, p, cfg_short(cfg)), case_json.clone());
        }
    }
    if let Some((kind, text)) = &monitor.first_problem {
        report.violate(format!("{}:{}", sig, kind), format!("{}: {} ({} such showdowns; {})", case.label, text, monitor.problems, cfg_short(cfg)), case_json.clone());
    }
    if duplicates > 0 {
        report.violate(format!("{}:duplicate", sig), format!("{}: {} of the first {} showdowns repeat an earlier deal ({})", case.label, duplicates, monitor.yielded, cfg_short(cfg)), case_json.clone());
    }
    if outcome.is_ok() && monitor.yielded < at_least {
        report.violate(
            format!("{}:ends-early", sig),
            format!("{}: the enumeration ended after {} showdowns although at least {} legal deals exist (product of range sizes {}; {})", case.label, monitor.yielded, at_least, cfg.product(), cfg_short(cfg)),
            case_json.clone(),
        );
    }
    Some(CaseStats {
        expected: at_least,
        yielded: monitor.yielded,
        considered: st.deals_considered,
        max_player_index: st.max_player_index,
        max_blocked_run: st.max_blocked_run,
        max_depth: st.max_depth,
        stack_span: st.stack_span(),
        river_before_turn: monitor.river_before_turn,
    })
}

/// `nth`, `skip`, `step_by`, `take`, `last`, `count` must walk the very sequence a `next()` loop yields.
fn adaptor_agreement(case: &EnumCase, cfg: &Config, ranges: &Vec<espada::hand_range::HandRange>, report: &mut Report) {
    use crate::drive::trace_key;
    let r = catch(|| {
        let plain: Vec<_> = {
            let mut it = drive::evaluator(cfg, ranges, None).into_iter();
            let mut v = Vec::new();
            while let Some(sd) = it.next() {
                v.push(trace_key(&sd));
            }
            v
        };
        let n = plain.len();
        let mut problems: Vec<String> = Vec::new();
        let fresh = || drive::evaluator(cfg, ranges, None).into_iter();
        for k in [0usize, 1, 2, n / 3, n / 2, n.saturating_sub(1), n, n + 3] {
            let got = fresh().nth(k).map(|sd| trace_key(&sd));
            if got != plain.get(k).cloned() {
                problems.push(format!("nth({}) differs from the {}th showdown of a next() loop", k, k));
            }
            let got: Vec<_> = fresh().skip(k).take(5).map(|sd| trace_key(&sd)).collect();
            let want: Vec<_> = plain.iter().skip(k).take(5).cloned().collect();
            if got != want {
                problems.push(format!("skip({}).take(5) differs from the next() loop", k));
            }
        }
        for step in [2usize, 3, 7] {
            let got: Vec<_> = fresh().step_by(step).map(|sd| trace_key(&sd)).collect();
            let want: Vec<_> = plain.iter().step_by(step).cloned().collect();
            if got != want {
                problems.push(format!("step_by({}) yields {} showdowns, every {}th of the next() loop is {}", step, got.len(), step, want.len()));
            }
        }
        if fresh().count() != n {
            problems.push("count() differs from the number of showdowns of a next() loop".into());
        }
        if fresh().last().map(|sd| trace_key(&sd)) != plain.last().cloned() {
            problems.push("last() differs from the last showdown of a next() loop".into());
        }
        // nth in the middle of an iteration, then carry on
        let mut it = fresh();
        let mut mixed = Vec::new();
        for _ in 0..n.min(7) {
            if let Some(sd) = it.next() {
                mixed.push(trace_key(&sd));
            }
        }
        if let Some(sd) = it.nth(4) {
            mixed.push(trace_key(&sd));
        }
        for sd in it.by_ref().take(3) {
            mixed.push(trace_key(&sd));
        }
        let mut want: Vec<_> = plain.iter().take(7).cloned().collect();
        want.extend(plain.iter().skip(7 + 4).take(1).cloned());
        want.extend(plain.iter().skip(7 + 5).take(3).cloned());
        if mixed != want {
            problems.push("next() x7, nth(4), take(3) differs from the same walk over a next() loop".into());
        }
        problems
    });
    report.count("adaptor_agreement_cases", 1);
    match r {
        Ok(problems) => {
            if let Some(p) = problems.first() {
                report.violate(format!("{}:adaptor", case.signature()), format!("{}: {} ({} disagreements; {})", case.label, p, problems.len(), cfg_short(cfg)), case.to_json());
            }
        }
        Err(p) => report.violate(format!("{}:adaptor-panic", case.signature()), format!("{}: draining through iterator adaptors panicked: {}", case.label, p), case.to_json()),
    }
}

pub fn cfg_short(cfg: &Config) -> String {
    let full = cfg.describe();
    if full.len() > 400 {
        format!("flop={} range sizes {:?}", cards_text(&cfg.flop), cfg.ranges.iter().map(|r| r.len()).collect::<Vec<_>>())
    } else {
        full
    }
}

/// Exact comparison at one board position: a missing, extra or repeated deal.
fn exact_diff(cfg: &Config, ranges: &Vec<espada::hand_range::HandRange>, pos: (u8, u8)) -> String {
    let deck = deck49(&cfg.flop);
    let (tc, rc) = (deck[pos.0 as usize], deck[pos.1 as usize]);
    let mut want: Vec<Vec<Pid>> = Vec::new();
    deals_at(cfg, tc, rc, &mut |combos, _| want.push(combos.to_vec()));
    want.sort();
    let mut got: Vec<Vec<Pid>> = Vec::new();
    let mut samples: Vec<String> = Vec::new();
    let r = catch(|| {
        for sd in drive::evaluator(cfg, ranges, None) {
            let v = view(&sd);
            let (a, b) = (v.board[3], v.board[4]);
            if (a == tc && b == rc) || (a == rc && b == tc) {
                if samples.len() < 2 {
                    samples.push(view_text(&v));
                }
                got.push(v.combos.clone());
            }
        }
    });
    if r.is_err() {
        return "re-run panicked".into();
    }
    got.sort();
    let show = |c: &Vec<Pid>| c.iter().map(|p| pair_text(*p)).collect::<Vec<_>>().join("/");
    let board = format!("{}{}", crate::conv::card_text(tc), crate::conv::card_text(rc));
    for w in got.windows(2) {
        if w[0] == w[1] {
            return format!("turn/river {}: deal {} is yielded more than once", board, show(&w[0]));
        }
    }
    for g in &got {
        if want.binary_search(g).is_err() {
            return format!("turn/river {}: yielded {} which is not a legal deal", board, show(g));
        }
    }
    for w in &want {
        if got.binary_search(w).is_err() {
            return format!("turn/river {}: legal deal {} is never yielded ({} yielded, {} legal here)", board, show(w), got.len(), want.len());
        }
    }
    format!("turn/river {}: fingerprints differ but the exact re-run agrees ({} deals)", board, got.len())
}

fn flop(text: &str) -> [u8; 3] {
    let v = parse_cards_text(text).unwrap();
    [v[0], v[1], v[2]]
}

fn combos_of(text: &str) -> Combos {
    text.split(',')
        .map(|t| {
            let v = parse_cards_text(t).unwrap();
            (pid(v[0], v[1]), 1.0)
        })
        .collect()
}

/// The cases of one tier. Deterministic in (tier, seed).
pub fn cases(tier: Tier, seed: u64) -> Vec<EnumCase> {
    let mut v: Vec<EnumCase> = Vec::new();
    let all: Combos = all_pairs().into_iter().map(|p| (p, 1.0)).collect();
    let deuces = flop("2h2d2c");

    // anchors
    v.push(EnumCase::collect("anchor-all-1326", deuces, vec![all.clone()]));
    v.push(EnumCase::collect("anchor-AsKs-vs-all", deuces, vec![combos_of("AsKs"), all.clone()]));
    v.push(EnumCase::collect("anchor-all-vs-AsKs", deuces, vec![all.clone(), combos_of("AsKs")]));
    // players blocking each other
    v.push(EnumCase::collect("shared-card-AsKs-AsQs", deuces, vec![combos_of("AsKs"), combos_of("AsQs")]));
    v.push(EnumCase::collect("identical-single", deuces, vec![combos_of("AsKs"), combos_of("AsKs")]));
    v.push(EnumCase::parsed("AA-vs-AKs", flop("Qs8d2h"), &["AA", "AKs"]));
    v.push(EnumCase::parsed("identical-KK", flop("Qs8d2h"), &["KK", "KK"]));
    v.push(EnumCase::parsed("three-way-AA-AKs-AKo", flop("7s8d2h"), &["AA", "AKs", "AKo:0.5"]));
    // documentation inputs
    v.push(EnumCase::parsed("readme", flop("Qs8d2h"), &["JJ+", "A2s+"]));
    v.push(EnumCase::parsed("bench", flop("Ks8d2h"), &["TT+", "A8s+"]));
    v.push(EnumCase::parsed("example-3way", flop("Qs8s2h"), &["JJ+,AsKs:0.5", "A2s+,KQo", "T9s,55"]));
    // no players at all: one showdown per board
    v.push(EnumCase::collect("no-players", flop("AsKd2h"), vec![]));
    // combos written low card first, on top of rank-pair tokens (a range never holds a combo twice)
    v.push(EnumCase::parsed("reversed-combos-1", flop("Qs8d2h"), &["AKo,KcAs:0.5", "QQ,QhQs:0.25"]));
    v.push(EnumCase::parsed("reversed-combos-2", flop("9s4d3h"), &["77,7d7s:0.25,KAs", "2Ko,T9s,9sTs:0.5"]));
    // ranges overlapping the flop
    v.push(EnumCase::parsed("range-on-flop", flop("AsKd2h"), &["AA,KK,22,AKs,AKo", "A2s+,K2s+"]));
    v.push(EnumCase::collect("combo-on-flop", flop("2h3h9c"), vec![combos_of("2h3h,AsAh"), combos_of("KsKh,2h9c,QsQh")]));

    let mut rng = Rng::derive(seed, "c02-cases", 0);
    // single player, sizes around the u8 boundary and beyond
    for (i, size) in [1usize, 2, 6, 46, 255, 256, 257, 300, 511, 512, 600, 1000, 1325, 1326].iter().enumerate() {
        let f = textured_flop(&mut rng, i);
        let mode = if i % 2 == 0 { WeightMode::Family } else { WeightMode::Random };
        v.push(EnumCase::collect(&format!("single-{}", size), f, vec![random_range(&mut rng, *size, mode)]));
    }
    // two players
    let two: Vec<(usize, usize)> = match tier {
        Tier::Quick => vec![(1, 1), (1, 300), (300, 1), (2, 257), (256, 2), (3, 255), (30, 30), (50, 60), (100, 30), (7, 400), (1326, 2), (2, 1326), (12, 12), (64, 40)],
        Tier::Thorough => vec![(1, 1326), (1326, 1), (300, 300), (257, 256), (1326, 40), (40, 1326), (500, 100), (100, 700), (255, 255), (60, 1000), (30, 30), (3, 257), (600, 150), (1326, 66)],
    };
    for (i, (a, b)) in two.iter().enumerate() {
        let f = textured_flop(&mut rng, i + 3);
        let mode = [WeightMode::AllOne, WeightMode::Family, WeightMode::Random][i % 3];
        v.push(EnumCase::collect(&format!("two-{}x{}", a, b), f, vec![random_range(&mut rng, *a, mode), random_range(&mut rng, *b, mode)]));
    }
    // identical wide ranges, and one range being a subset of the other
    let shared = random_range(&mut rng, 40, WeightMode::Family);
    v.push(EnumCase::collect("two-identical-40", textured_flop(&mut rng, 2), vec![shared.clone(), shared.clone()]));
    v.push(EnumCase::collect("two-subset", textured_flop(&mut rng, 4), vec![shared.clone(), shared[..10].to_vec()]));
    // 3..6 (quick) / 3..8 (thorough) players with heavy overlap: combos from a dozen cards
    let max_players = tier.pick(6, 8);
    for n in 3..=max_players {
        for rep in 0..tier.pick(3, 6) {
            let f = textured_flop(&mut rng, rep + n);
            let pool_cards: Vec<u8> = rng.sample(52, 8 + 2 * n).into_iter().map(|c| c as u8).collect();
            let per = match n {
                3 => 12,
                4 => 8,
                5 => 6,
                6 => 4,
                _ => 3,
            };
            let ranges: Vec<Combos> = (0..n).map(|_| clustered_range(&mut rng, &pool_cards, per, WeightMode::Family)).collect();
            v.push(EnumCase::collect(&format!("multi-{}p-{}", n, rep), f, ranges));
        }
    }
    // which seats block each other: private cards per seat plus cards shared by chosen PAIRS of seats only, so that
    // e.g. seats 0 and 2 overlap while every neighbouring pair is disjoint (a shortcut that looks at neighbours, at
    // seat 0, or at the previous seat only must not skip the other pairs), and seats that are pairwise disjoint
    let graphs: Vec<(usize, Vec<(usize, usize)>)> = vec![
        (3, vec![(0, 2)]),
        (3, vec![]),
        (3, vec![(1, 2)]),
        (4, vec![(0, 2)]),
        (4, vec![(1, 3)]),
        (4, vec![(0, 3)]),
        (4, vec![(0, 2), (1, 3)]),
        (4, vec![]),
        (5, vec![(0, 4)]),
        (5, vec![(1, 3), (0, 2)]),
        (5, vec![(2, 4), (0, 3)]),
        (6, vec![(0, 5), (1, 4)]),
    ];
    for (g, (n, pairs)) in graphs.iter().enumerate() {
        v.push(overlap_graph_case(&mut rng, &format!("overlap-graph-{}p-{:?}", n, pairs).replace(' ', ""), *n, pairs, g));
    }
    // weights at the corners of f32 multiplication: 1 and the value just below it, powers of two and
    // their neighbours (the probability must be one of the exactly computable products)
    for (i, sizes) in [vec![6usize], vec![1], vec![5, 5], vec![3, 3, 3], vec![2, 3, 2, 2], vec![12, 1]].iter().enumerate() {
        for (m, mode) in [WeightMode::NearOne, WeightMode::Binary].iter().enumerate() {
            let ranges: Vec<Combos> = sizes.iter().map(|s| random_range(&mut rng, *s, *mode)).collect();
            v.push(EnumCase::collect(&format!("corner-weights-{}-{}", i, m), textured_flop(&mut rng, i), ranges));
        }
    }
    // products of the range sizes at and beyond 2^32: only the first showdowns can be observed
    let limit = tier.pick(60_000u64, 600_000);
    for (label, sizes) in [("huge-4x256", vec![256usize, 256, 256, 256]), ("huge-3x1326", vec![1326, 1326, 1326]), ("huge-5x90", vec![90, 90, 90, 90, 90]), ("huge-1024x1024x512", vec![1024, 1024, 512]), ("huge-2x65536ish", vec![1326, 1326, 4])] {
        let ranges: Vec<Combos> = sizes.iter().map(|s| random_range(&mut rng, *s, WeightMode::Family)).collect();
        v.push(EnumCase::collect(label, textured_flop(&mut rng, sizes.len()), ranges).with_limit(limit));
    }
    // notation-built ranges
    for i in 0..tier.pick(12, 40) {
        let f = textured_flop(&mut rng, i);
        let players = 2 + rng.usize_below(2);
        let mut texts = Vec::new();
        let mut product: u128 = 1;
        for _ in 0..players {
            let n_tokens = 1 + rng.usize_below(3);
            let (text, combos) = notation_range(&mut rng, n_tokens, WeightMode::Family);
            product *= combos.len().max(1) as u128;
            texts.push(text);
        }
        if product > tier.pick(8_000, 60_000) {
            continue;
        }
        let refs: Vec<&str> = texts.iter().map(|s| s.as_str()).collect();
        v.push(EnumCase::parsed(&format!("notation-{}", i), f, &refs));
    }
    // random small configurations
    for i in 0..tier.pick(40, 300) {
        let f = textured_flop(&mut rng, i);
        let players = 1 + rng.usize_below(4);
        let mut ranges = Vec::new();
        let mut product: u128 = 1;
        for _ in 0..players {
            let size = 1 + rng.usize_below(if players <= 2 { 60 } else { 14 });
            product *= size as u128;
            let mode = [WeightMode::AllOne, WeightMode::Family, WeightMode::Random][rng.usize_below(3)];
            ranges.push(random_range(&mut rng, size, mode));
        }
        if product > 20_000 {
            continue;
        }
        v.push(EnumCase::collect(&format!("random-{}", i), f, ranges));
    }
    v
}

/// `n` seats with three private cards each; every listed pair of seats additionally shares two cards that both
/// hold in two of their combos. No other pair of seats has a card in common.
fn overlap_graph_case(rng: &mut Rng, label: &str, n: usize, pairs: &[(usize, usize)], texture: usize) -> EnumCase {
    let f = textured_flop(rng, texture);
    let mut deck: Vec<u8> = (0..52u8).filter(|c| !f.contains(c)).collect();
    rng.shuffle(&mut deck);
    let mut take = |k: usize| -> Vec<u8> { deck.split_off(deck.len() - k) };
    let private: Vec<Vec<u8>> = (0..n).map(|_| take(3)).collect();
    let weights = [1.0f32, 0.5, 0.25, 0.75];
    let mut ranges: Vec<Combos> = private
        .iter()
        .enumerate()
        .map(|(i, p)| vec![(pid(p[0], p[1]), weights[i % 4]), (pid(p[0], p[2]), 1.0), (pid(p[1], p[2]), 0.5)])
        .collect();
    for (a, b) in pairs {
        let shared = take(2);
        for seat in [*a, *b] {
            for (k, s) in shared.iter().enumerate() {
                ranges[seat].push((pid(*s, private[seat][k]), weights[(seat + k) % 4]));
            }
        }
        // one combo made of the two shared cards for the first seat of the pair
        ranges[*a].push((pid(shared[0], shared[1]), 1.0));
    }
    for r in ranges.iter_mut() {
        rng.shuffle(r);
    }
    EnumCase::collect(label, f, ranges)
}

pub fn run(ctx: &Ctx) -> Report {
    let mut cases = cases(ctx.tier, ctx.seed);
    // biggest first so the tail of the parallel run is short
    cases.sort_by_key(|c| std::cmp::Reverse(c.ranges.iter().map(|r| r.len() as u128).product::<u128>()));
    let results = par_run(
        cases.len(),
        1,
        |_| Report::new(),
        |report, i| {
            let case = &cases[i];
            let key = case.signature();
            crate::child::journal_begin(&key, &case.to_json());
            let stats = run_case(case, report, "C02");
            crate::child::journal_end(&key);
            if let Some(st) = stats {
                report.count("deals_expected", st.expected);
                report.count("showdowns_yielded", st.yielded);
                report.count("deals_considered_hook", st.considered);
                report.count("deals_blocked", st.considered.saturating_sub(st.yielded));
                report.max("max_odometer_index_reached", st.max_player_index as u64);
                report.max("max_blocked_run", st.max_blocked_run);
                report.max("max_next_depth", st.max_depth as u64);
                report.count("river_before_turn_showdowns", st.river_before_turn);
                if st.expected > 0 {
                    report.note_distinct(case.hash());
                }
                if st.max_player_index > 255 {
                    report.count("cases_driving_index_above_255", 1);
                }
                if matches!(case.label.as_str(), "anchor-all-1326" | "anchor-AsKs-vs-all" | "shared-card-AsKs-AsQs" | "readme" | "single-257") || case.label.starts_with("multi-6p-0") {
                    report.sample(case.summary().set("legal_deals", Json::Int(st.expected as i128)).set("yielded", Json::Int(st.yielded as i128)).set("considered", Json::Int(st.considered as i128)).set("max_odometer_index", Json::Int(st.max_player_index as i128)));
                }
            }
        },
    );
    let mut report = Report::new();
    for r in results {
        report.merge(r);
    }
    report.rule = "one execution = one complete drain of the real evaluator for a (flop, range list) case, every yielded showdown checked locally (flop order, unseen turn/river, combo from the player's range, 5+2n distinct cards, probability = weight product) and the multiset of deals compared with the naive enumerator R3 position by position through 128-bit order-independent fingerprints (exact re-run of the first differing position for the witness); distinct = distinct cases with at least one legal deal".into();
    report.assumptions.push("the oracle reads each range back from the HandRange actually handed to the evaluator; f32 probability compared with relative tolerance 1e-5 (exactly when a factor is 0 or all are 1) because the statement does not fix the association order".into());
    report.assumptions.push("the order of turn and river inside a board is not demanded here (C04 demands it)".into());
    report
}

pub fn replay(case: &Json) -> Report {
    let mut report = Report::new();
    match EnumCase::from_json(case) {
        Some(c) => {
            run_case(&c, &mut report, "C02");
        }
        None => report.inconclusive("replay case is not an enumeration case"),
    }
    report
}
