//! Enumeration cases shared by C02/C04/C08/C11/C15: description, (de)serialisation,
//! construction of the real evaluator inputs.

use crate::conv::{cards_text, combos_text, from_hand_range, parse_cards_text, parse_combos_text, to_hand_range, Combos};
use crate::json::Json;
use crate::refmodel::enumerate::Config;
use crate::util::hash_str;
use espada::hand_range::HandRange;

#[derive(Clone, Debug)]
pub struct EnumCase {
    pub label: String,
    pub flop: [u8; 3],
    /// ranges as combo lists (built with `FromIterator`), or
    pub ranges: Vec<Combos>,
    /// ranges given as notation and built by espada's parser (the oracle then reads the
    /// parsed range back, so a notation defect cannot masquerade as an enumeration defect)
    pub notation: Option<Vec<String>>,
    /// drain at most this many showdowns (cases whose complete enumeration is out of reach)
    pub limit: Option<u64>,
}

impl EnumCase {
    pub fn collect(label: &str, flop: [u8; 3], ranges: Vec<Combos>) -> EnumCase {
        EnumCase { label: label.to_string(), flop, ranges, notation: None, limit: None }
    }

    pub fn parsed(label: &str, flop: [u8; 3], notation: &[&str]) -> EnumCase {
        EnumCase {
            label: label.to_string(),
            flop,
            ranges: Vec::new(),
            notation: Some(notation.iter().map(|s| s.to_string()).collect()),
            limit: None,
        }
    }

    /// The espada ranges and the oracle's configuration describing exactly those ranges.
    pub fn build(&self) -> Result<(Vec<HandRange>, Config), String> {
        let ranges: Vec<HandRange> = match &self.notation {
            Some(texts) => {
                let mut v = Vec::new();
                for t in texts {
                    let r = crate::util::catch(|| t.parse::<HandRange>())
                        .map_err(|p| format!("parsing '{}' panicked: {}", t, p))?
                        .map_err(|_| format!("'{}' does not parse", t))?;
                    v.push(r);
                }
                v
            }
            None => self.ranges.iter().map(|r| to_hand_range(r)).collect(),
        };
        let cfg = Config { flop: self.flop, ranges: ranges.iter().map(from_hand_range).collect() };
        Ok((ranges, cfg))
    }

    pub fn to_json(&self) -> Json {
        let mut j = Json::obj()
            .set("kind", Json::str("enum"))
            .set("label", Json::str(self.label.clone()))
            .set("flop", Json::str(cards_text(&self.flop)));
        match &self.notation {
            Some(n) => j.put("notation", Json::strs(n.clone())),
            None => j.put("ranges", Json::strs(self.ranges.iter().map(|r| combos_text(r)))),
        }
        if let Some(l) = self.limit {
            j.put("limit", Json::Int(l as i128));
        }
        j
    }

    pub fn players(&self) -> usize {
        match &self.notation {
            Some(n) => n.len(),
            None => self.ranges.len(),
        }
    }

    pub fn with_limit(mut self, limit: u64) -> EnumCase {
        self.limit = Some(limit);
        self
    }

    pub fn from_json(j: &Json) -> Option<EnumCase> {
        let flop_v = parse_cards_text(j.get("flop")?.as_str()?)?;
        if flop_v.len() != 3 {
            return None;
        }
        let label = j.get("label").and_then(|l| l.as_str()).unwrap_or("replay").to_string();
        let notation = j.get("notation").and_then(|n| n.as_arr()).map(|a| {
            a.iter().filter_map(|s| s.as_str().map(|s| s.to_string())).collect::<Vec<_>>()
        });
        let ranges = match j.get("ranges").and_then(|n| n.as_arr()) {
            Some(a) => a.iter().map(|s| s.as_str().and_then(parse_combos_text)).collect::<Option<Vec<_>>>()?,
            None => Vec::new(),
        };
        let limit = j.get("limit").and_then(|l| l.as_i128()).map(|l| l as u64);
        Some(EnumCase { label, flop: [flop_v[0], flop_v[1], flop_v[2]], ranges, notation, limit })
    }

    /// Short description for samples (sizes instead of full combo lists).
    pub fn summary(&self) -> Json {
        let mut j = Json::obj()
            .set("label", Json::str(self.label.clone()))
            .set("flop", Json::str(cards_text(&self.flop)));
        match &self.notation {
            Some(n) => j.put("notation", Json::strs(n.clone())),
            None => {
                j.put("range_sizes", Json::arr(self.ranges.iter().map(|r| Json::Int(r.len() as i128))));
                let short: Vec<String> = self
                    .ranges
                    .iter()
                    .map(|r| {
                        let t = combos_text(&r[..r.len().min(4)]);
                        if r.len() > 4 {
                            format!("{} ...", t)
                        } else {
                            t
                        }
                    })
                    .collect();
                j.put("ranges_head", Json::strs(short));
            }
        }
        j
    }

    pub fn hash(&self) -> u64 {
        hash_str(&self.to_json().to_string_compact())
    }

    pub fn signature(&self) -> String {
        format!("{}#{:016x}", self.label, self.hash())
    }
}
