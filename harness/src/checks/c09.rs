//! C09 — parsers are total (value or error, never a panic; every value can be expanded,
//! formatted, decomposed and handed to the evaluator) and
//! C10 — every parsed range holds only real combos with weights in [0,1].
//! One probe, two monitors: both properties observe the same parser executions.

use crate::conv::{cid, pid_of, RANK_CHARS, SUIT_CHARS};
use crate::core::{Ctx, Report, Tier};
use crate::drive;
use crate::json::Json;
use crate::refmodel::notation::all_well_formed_tokens;
use crate::util::{catch, hash_str, panic_site, par_run, Rng};
use espada::card::{Card, Rank, Suit};
use espada::evaluator::FlopExhaustiveEvaluator;
use espada::hand_range::{CardPair, HandRange, HandRangeToken};

#[derive(Clone, Copy, PartialEq, Eq)]
pub enum Which {
    C09,
    C10,
}

#[derive(Default)]
pub struct ProbeStats {
    pub strings: u64,
    pub ok_rank: u64,
    pub ok_suit: u64,
    pub ok_card: u64,
    pub ok_pair: u64,
    pub ok_token: u64,
    pub nonempty_ranges: u64,
    pub combos_checked: u64,
    pub max_weight_bits: u32,
    pub degenerate_answered_err: u64,
    pub degenerate_answered_dropped: u64,
    pub showdowns_checked: u64,
    pub multibyte_strings: u64,
}

impl ProbeStats {
    fn merge(&mut self, o: &ProbeStats) {
        self.strings += o.strings;
        self.ok_rank += o.ok_rank;
        self.ok_suit += o.ok_suit;
        self.ok_card += o.ok_card;
        self.ok_pair += o.ok_pair;
        self.ok_token += o.ok_token;
        self.nonempty_ranges += o.nonempty_ranges;
        self.combos_checked += o.combos_checked;
        self.max_weight_bits = self.max_weight_bits.max(o.max_weight_bits);
        self.degenerate_answered_err += o.degenerate_answered_err;
        self.degenerate_answered_dropped += o.degenerate_answered_dropped;
        self.showdowns_checked += o.showdowns_checked;
        self.multibyte_strings += o.multibyte_strings;
    }
}

fn clip(s: &str) -> String {
    let esc: String = s.chars().take(80).flat_map(|c| c.escape_debug()).collect();
    if s.chars().count() > 80 {
        format!("{}...[{} bytes]", esc, s.len())
    } else {
        esc
    }
}

fn case_of(s: &str) -> Json {
    if s.len() <= 4096 {
        Json::obj().set("kind", Json::str("string")).set("text", Json::str(s))
    } else {
        // long inputs are regenerated from their description
        Json::obj().set("kind", Json::str("string")).set("text", Json::str(&s[..s.char_indices().nth(2000).map(|(i, _)| i).unwrap_or(s.len())])).set("truncated_from_bytes", Json::Int(s.len() as i128))
    }
}

struct Probe<'a> {
    /// dev-profile batches cost ~30x per deal: no complete drains there
    light: bool,
    which: Which,
    report: &'a mut Report,
    stats: &'a mut ProbeStats,
}

impl<'a> Probe<'a> {
    fn panic(&mut self, stage: &str, s: &str, p: &str) {
        if p.contains(drive::BOUND_PANIC) {
            // the harness's own non-termination guard: the enumerator does not advance, which is C02/C08's subject;
            // whether the parsed value is usable cannot be told from a run that never ends
            if self.report.inconclusive.len() < 3 {
                self.report.inconclusive(format!("{} on '{}': {}", stage, clip(s), p));
            }
            return;
        }
        if self.which == Which::C09 {
            self.report.violate(format!("{}:panic@{}", stage, panic_site(p)), format!("{} panics on '{}': {}", stage, clip(s), p), case_of(s));
        } else {
            // a panic is C09's finding; for C10 nothing was produced, so nothing can break its invariant
            self.report.count("panics_seen_left_to_C09", 1);
        }
    }

    fn bad_value(&mut self, kind: &str, s: &str, what: String) {
        if self.which == Which::C10 {
            self.report.violate(format!("{}:{:016x}", kind, hash_str(s)), format!("'{}': {}", clip(s), what), case_of(s));
        } else {
            self.report.count("invariant_breaks_seen_left_to_C10", 1);
        }
    }

    fn check_combo(&mut self, s: &str, pair: &CardPair, w: f32, origin: &str) {
        self.stats.combos_checked += 1;
        if cid(&pair[0]) == cid(&pair[1]) {
            self.bad_value("same-card-combo", s, format!("{} holds the combo {} made of one card twice", origin, pair));
        }
        if !(w >= 0.0 && w <= 1.0) {
            self.bad_value("weight-out-of-range", s, format!("{} gives {} the weight {}", origin, pair, w));
        } else if w.to_bits() > self.stats.max_weight_bits {
            self.stats.max_weight_bits = w.to_bits();
        }
    }

    fn run(&mut self, s: &str, heavy: bool) {
        self.report.evaluations += 1;
        self.stats.strings += 1;
        if !s.is_ascii() {
            self.stats.multibyte_strings += 1;
        }
        // ---- value parsers
        match catch(|| s.parse::<Rank>()) {
            Ok(Ok(r)) => {
                self.stats.ok_rank += 1;
                if let Err(p) = catch(|| (r.to_string(), u8::from(r), char::from(r), r.next(), r.prev())) {
                    self.panic("use-of-parsed-rank", s, &p);
                }
            }
            Ok(Err(_)) => {}
            Err(p) => self.panic("parse-rank", s, &p),
        }
        match catch(|| s.parse::<Suit>()) {
            Ok(Ok(u)) => {
                self.stats.ok_suit += 1;
                if let Err(p) = catch(|| (u.to_string(), u8::from(u), char::from(u))) {
                    self.panic("use-of-parsed-suit", s, &p);
                }
            }
            Ok(Err(_)) => {}
            Err(p) => self.panic("parse-suit", s, &p),
        }
        match catch(|| s.parse::<Card>()) {
            Ok(Ok(c)) => {
                self.stats.ok_card += 1;
                if let Err(p) = catch(|| (c.to_string(), format!("{:?}", c), u64::from(c))) {
                    self.panic("use-of-parsed-card", s, &p);
                }
            }
            Ok(Err(e)) => {
                if let Err(p) = catch(|| (e.to_string(), format!("{:?}", e))) {
                    self.panic("format-card-error", s, &p);
                }
            }
            Err(p) => self.panic("parse-card", s, &p),
        }
        match catch(|| s.parse::<CardPair>()) {
            Ok(Ok(cp)) => {
                self.stats.ok_pair += 1;
                if let Err(p) = catch(|| (cp.to_string(), format!("{:?}", cp), cp[0], cp[1])) {
                    self.panic("use-of-parsed-card-pair", s, &p);
                }
            }
            Ok(Err(e)) => {
                if let Err(p) = catch(|| format!("{:?}", e)) {
                    self.panic("format-card-pair-error", s, &p);
                }
            }
            Err(p) => self.panic("parse-card-pair", s, &p),
        }
        // ---- token
        match catch(|| s.parse::<HandRangeToken>()) {
            Ok(Ok(tok)) => {
                self.stats.ok_token += 1;
                match catch(|| (tok.to_string(), format!("{:?}", tok))) {
                    Ok(_) => {}
                    Err(p) => self.panic("format-parsed-token", s, &p),
                }
                match catch(|| tok.into_iter().collect::<Vec<_>>()) {
                    Ok(items) => {
                        for (pair, w) in items {
                            self.check_combo(s, &pair, w, "the expanded token");
                        }
                    }
                    Err(p) => self.panic("expand-parsed-token", s, &p),
                }
            }
            Ok(Err(_)) => {}
            Err(p) => self.panic("parse-token", s, &p),
        }
        // ---- range
        match catch(|| s.parse::<HandRange>()) {
            Ok(Ok(range)) => {
                let n = range.card_pairs().len();
                if n > 0 {
                    self.stats.nonempty_ranges += 1;
                }
                for (pair, w) in range.card_pairs().iter() {
                    let (pair, w) = (*pair, *w);
                    self.check_combo(s, &pair, w, "the parsed range");
                }
                if let Err(p) = catch(|| (&range).into_iter().count()) {
                    self.panic("iterate-parsed-range", s, &p);
                }
                if n <= 200 || heavy {
                    if let Err(p) = catch(|| {
                        let copy = range.clone();
                        (copy == range, format!("{:?}", copy).len(), copy.card_pairs().len())
                    }) {
                        self.panic("clone-compare-debug-parsed-range", s, &p);
                    }
                }
                match catch(|| range.to_string()) {
                    Ok(text) => {
                        if heavy && text.len() < 4000 {
                            if let Err(p) = catch(|| text.parse::<HandRange>().map(|r| r.card_pairs().len())) {
                                self.panic("reparse-formatted-range", s, &p);
                            }
                        }
                    }
                    Err(p) => self.panic("format-parsed-range", s, &p),
                }
                if let Err(p) = catch(|| (range.rank_pairs().len(), range.orphan_card_pairs().len())) {
                    self.panic("decompose-parsed-range", s, &p);
                }
                if n > 0 || heavy {
                    self.evaluate(s, &range);
                }
            }
            Ok(Err(_)) => {}
            Err(p) => self.panic("parse-range", s, &p),
        }
    }

    /// Hands the parsed range to the evaluator: alone and against itself, on a short scope.
    fn evaluate(&mut self, s: &str, range: &HandRange) {
        let flop = [28u8 + 3, 40 + 2, 48 + 1]; // 7c 4d 2h
        let board = drive::board_of(&flop);
        drive::reset_budget();
        let n = range.card_pairs().len();
        // (players, from, to): small ranges are drained completely (every board), larger ones on
        // short scopes scattered over the deck, so that no card is blocked in all of them
        let whole = ((0u8, 1u8), (48u8, 49u8));
        let scattered = [((0u8, 1u8), (0u8, 4u8)), ((9, 20), (9, 23)), ((22, 30), (22, 33)), ((37, 40), (37, 43)), ((46, 47), (48, 49))];
        let mut setups: Vec<(Vec<HandRange>, ((u8, u8), (u8, u8)))> = Vec::new();
        if n <= 12 && !self.light {
            setups.push((vec![range.clone()], whole));
        } else {
            for s in scattered {
                setups.push((vec![range.clone()], s));
            }
        }
        if n <= 6 && !self.light {
            setups.push((vec![range.clone(), range.clone()], whole));
        } else if n <= 80 {
            setups.push((vec![range.clone(), range.clone()], scattered[0]));
            setups.push((vec![range.clone(), range.clone()], scattered[3]));
        }
        // three and four seats: blocking between seats that are not neighbours
        if n >= 2 && n <= 12 {
            setups.push((vec![range.clone(), range.clone(), range.clone()], scattered[3]));
        }
        if n >= 2 && n <= 6 {
            setups.push((vec![range.clone(), range.clone(), range.clone(), range.clone()], scattered[1]));
        }
        for (players, (from, to)) in setups {
            let which = self.which;
            let mut bad: Option<String> = None;
            let mut seen = 0u64;
            let r = catch(|| {
                crate::drive::allow(&players);
                let mut e = FlopExhaustiveEvaluator::new(&board, &players);
                e.scope(from.0, from.1, to.0, to.1);
                for sd in e {
                    seen += 1;
                    if which == Which::C10 {
                        let p = sd.probability();
                        if !(p >= 0.0 && p <= 1.0) && bad.is_none() {
                            bad = Some(format!("a showdown carries probability {}", p));
                        }
                        let mut mask = 0u64;
                        let mut dup = false;
                        for c in sd.board().iter() {
                            let b = 1u64 << cid(c);
                            dup |= mask & b != 0;
                            mask |= b;
                        }
                        for pl in sd.players() {
                            let h = pl.hole_cards();
                            for c in [h[0], h[1]] {
                                let b = 1u64 << cid(&c);
                                dup |= mask & b != 0;
                                mask |= b;
                            }
                        }
                        if dup && bad.is_none() {
                            bad = Some(format!("a showdown contains the same card twice (hole cards {:?})", sd.players().iter().map(|p| pid_of(&p.hole_cards())).collect::<Vec<_>>()));
                        }
                    }
                }
            });
            self.stats.showdowns_checked += seen;
            if let Err(p) = r {
                self.panic("evaluate-parsed-range", s, &p);
            }
            if let Some(b) = bad {
                self.bad_value("showdown-from-parsed-range", s, b);
            }
        }
    }
}

const ALPHABET: [&str; 30] = [
    "A", "K", "Q", "J", "T", "9", "8", "7", "6", "5", "4", "3", "2", "s", "h", "d", "c", "o", "+", "-", ":", ".", ",", "0", "1", " ", "é", "♠", "😀", "\0",
];
/// letters of the notation in the other case
const OTHER_CASE: [&str; 10] = ["a", "k", "q", "j", "t", "S", "H", "D", "C", "O"];
/// 2-, 3- and 4-byte characters, and the two non-ASCII characters that simple case folding maps onto notation letters
/// (U+017F long s -> 's', U+212A Kelvin sign -> 'k'): a case-insensitive matcher accepts them where a byte slice then cuts
const MULTIBYTE: [&str; 5] = ["é", "♠", "😀", "\u{17f}", "\u{212a}"];

fn nth_string(mut index: u64, len: usize) -> String {
    let mut s = String::new();
    for _ in 0..len {
        s.push_str(ALPHABET[(index % 30) as usize]);
        index /= 30;
    }
    s
}

/// Every string matching one of the seven token shapes with arbitrary ranks/suits.
fn shape_strings() -> Vec<String> {
    let r = RANK_CHARS;
    let mut v = Vec::new();
    for a in r {
        for b in r {
            v.push(format!("{}{}", a, b));
            v.push(format!("{}{}+", a, b));
            for x in ['s', 'o'] {
                v.push(format!("{}{}{}", a, b, x));
                v.push(format!("{}{}{}+", a, b, x));
            }
            for c in r {
                for d in r {
                    v.push(format!("{}{}-{}{}", a, b, c, d));
                    for x in ['s', 'o'] {
                        for y in ['s', 'o'] {
                            v.push(format!("{}{}{}-{}{}{}", a, b, x, c, d, y));
                        }
                    }
                }
            }
        }
    }
    for a in r {
        for x in SUIT_CHARS {
            for b in r {
                for y in SUIT_CHARS {
                    v.push(format!("{}{}{}{}", a, x, b, y));
                }
            }
        }
    }
    v
}

fn weight_literals() -> Vec<String> {
    let mut v = Vec::new();
    for lead in ['0', '1'] {
        v.push(lead.to_string());
        for digits in 1..=4u32 {
            for n in 0..10u32.pow(digits) {
                v.push(format!("{}.{:0width$}", lead, n, width = digits as usize));
            }
        }
    }
    // every other spelling a float parser may accept, and near misses: signs, exponents, infinities, NaN, bare dots,
    // digit separators, hexadecimal, digits of other scripts, blanks
    for z in [
        "-0", "-0.0", "-0.5", "-1", "-1.0", "-0.25", "-2", "-1e3", "-1e-3", "-.5", "-5e-1", "+0", "+0.5", "+1", "+1.0", "+.5", "+1e0",
        "1e0", "1E0", "1e-1", "5e-1", "0.5e0", "0.5e1", "0.05e1", "5e-2", "1e1", "1e-46", "1e-400", "1e400", "0e0", "0e99", "1e+0", "1.0e0", "9e-1",
        "inf", "-inf", "+inf", "Inf", "INF", "infinity", "-infinity", "Infinity", "nan", "NaN", "-nan", "-NaN", "+NaN", "NAN",
        ".5", ".0", ".", "0.", "1.", "-.", "00.5", "01", "001.0", "0..5", "0.5.", "0.5.5", "1..0",
        "0_5", "0.5_0", "1_0", "0x1", "0x0.8", "0x1p-1", "0b1", "1f32", "0.5f32", "1_f32", "0.5f", "1d",
        "\u{ff11}", "\u{ff10}.\u{ff15}", "\u{0661}", "0.\u{0665}", "\u{2212}0.5", "0,5", " 0.5", "0.5 ", "0 .5", "0. 5", "- 0.5", "\t0.5",
        "1.5", "2", "2.0", "10", "1.0000001", "1.00000000000000000000001", "0.99999997", "0.999999999999999999999", "1.0e-0",
    ] {
        v.push(z.to_string());
    }
    // every string of up to four characters over the characters a weight grammar is made of (a regex that lost an
    // escape, an anchor or a quantifier accepts a short string it should not: "100", "1x0", "0.", "1.05", "-1")
    let alphabet = ['0', '1', '5', '.', 'e', '-', '+', 'x'];
    let mut level: Vec<String> = vec![String::new()];
    for _ in 0..4 {
        let mut next = Vec::with_capacity(level.len() * alphabet.len());
        for prefix in &level {
            for c in alphabet {
                let mut t = prefix.clone();
                t.push(c);
                next.push(t);
            }
        }
        v.extend(next.iter().cloned());
        level = next;
    }
    v
}

const SHAPE_EXAMPLES: [&str; 7] = ["TT-77", "KJs-K8s", "99+", "QTo+", "55", "J9s", "AhKd"];

enum Job {
    Short { len: usize, lo: u64, hi: u64 },
    Shapes { lo: usize, hi: usize, weights: bool },
    Multibyte { lo: usize, hi: usize },
    Random { n: u32, index: u64 },
    Lists { n: u32, index: u64 },
    Weights { lo: usize, hi: usize },
    CardPairs,
    Long { index: u64 },
    Named,
    /// well-formed tokens, bare and with weights, as tokens and inside lists
    ValidTokens { lo: usize, hi: usize },
    /// shape strings and tokens with some letters in the other case
    CaseVariants { lo: usize, hi: usize },
    /// very long lists of the widest tokens, and weight literals of hundreds of digits
    Extremes,
}

const NAMED: [&str; 40] = [
    "22-AA", "KAs+", "2As+", "2Ao+", "AA-AA", "88-88", "AKs-AKs", "AKs-AQo", "AKs-KQs", "A2s-AKs", "AKo-A2s", "KAs-K2s", "K2s-KAs", "AA+", "22+", "AKs+", "32s+", "AAs", "AAo", "AAs+",
    "AsAs", "AsAs:0.5", "AA:1.9", "AA:1.0000001", "AA:2", "AA:1.", "AA:.5", "AA:-0", "AA:1e5", "AA:NaN", "AA:inf", "AA:0x1", ":", ",", ",,,", "AA,", ",AA", "AA,,KK", "é", "Aé",
];


struct Tables {
    shapes: Vec<String>,
    literals: Vec<String>,
    tokens: Vec<crate::refmodel::notation::Tok>,
}

fn run_job(job: &Job, which: Which, seed: u64, t: &Tables, report: &mut Report, stats: &mut ProbeStats) {
    let shapes = &t.shapes;
    let literals = &t.literals;
    let tokens = &t.tokens;
    let mut probe = Probe { light: cfg!(debug_assertions), which, report, stats };
            match job {
                Job::Named => {
                    for s in NAMED {
                        probe.run(s, true);
                        probe.report.note_distinct(hash_str(s));
                    }
                    probe.report.count("named_strings", NAMED.len() as u64);
                }
                Job::CardPairs => {
                    // all 52 x 52 two-card strings, both cards equal included
                    for a in 0..52u8 {
                        for b in 0..52u8 {
                            let s = format!("{}{}", crate::conv::card_text(a), crate::conv::card_text(b));
                            let before = probe.stats.ok_token;
                            probe.run(&s, false);
                            probe.report.note_distinct(hash_str(&s));
                            if a == b {
                                if probe.stats.ok_token == before {
                                    probe.stats.degenerate_answered_err += 1;
                                } else {
                                    probe.stats.degenerate_answered_dropped += 1;
                                }
                                let weighted = format!("{}:0.5", s);
                                probe.run(&weighted, false);
                            }
                        }
                    }
                    probe.report.count("two_card_strings", 52 * 52);
                }
                Job::Short { len, lo, hi } => {
                    for i in *lo..*hi {
                        let s = nth_string(i, *len);
                        probe.run(&s, false);
                        probe.report.note_distinct(crate::util::mix2(*len as u64, i));
                    }
                    probe.report.count(&format!("short_strings_len_{}", len), *hi - *lo);
                }
                Job::Shapes { lo, hi, weights } => {
                    let mut rng = Rng::derive(seed, "c09-shape-weights", *lo as u64);
                    for s in &shapes[*lo..*hi] {
                        probe.run(s, false);
                        probe.report.note_distinct(hash_str(s));
                        if *weights {
                            let lit = &literals[rng.usize_below(literals.len())];
                            let w = format!("{}:{}", s, lit);
                            probe.run(&w, false);
                            probe.report.note_distinct(hash_str(&w));
                        }
                    }
                    probe.report.count("shape_strings_with_arbitrary_ranks", (*hi - *lo) as u64);
                }
                Job::Multibyte { lo, hi } => {
                    let mut n = 0u64;
                    let mut rng = Rng::derive(seed, "c09-multibyte", *lo as u64);
                    for t in &tokens[*lo..*hi] {
                        let text = if rng.chance(1, 2) { t.text() } else { format!("{}:0.5", t.text()) };
                        let chars: Vec<char> = text.chars().collect();
                        for off in 0..=chars.len() {
                            let m = MULTIBYTE[rng.usize_below(MULTIBYTE.len())];
                            // replace the character at `off` (or append at the end)
                            let mut s: String = chars[..off].iter().collect();
                            s.push_str(m);
                            if off < chars.len() {
                                s.extend(chars[off + 1..].iter());
                            }
                            probe.run(&s, false);
                            probe.report.note_distinct(hash_str(&s));
                            n += 1;
                        }
                    }
                    probe.report.count("tokens_with_one_multibyte_replacement", n);
                }
                Job::Random { n, index } => {
                    let mut rng = Rng::derive(seed, "c09-random", *index);
                    for _ in 0..*n {
                        let len = match rng.below(10) {
                            0 => rng.usize_below(400),
                            _ => rng.usize_below(12),
                        };
                        let mut s = String::new();
                        for _ in 0..len {
                            if rng.chance(1, 25) {
                                if let Some(c) = char::from_u32(rng.below(0x11_0000) as u32) {
                                    s.push(c);
                                }
                            } else if rng.chance(1, 12) && len > 40 {
                                // commas are rare in long strings: each piece costs seven regex compilations
                                s.push(',');
                            } else {
                                let a = ALPHABET[rng.usize_below(30)];
                                if a != "," || len <= 40 {
                                    s.push_str(a);
                                }
                            }
                        }
                        probe.run(&s, true);
                        probe.report.note_distinct(hash_str(&s));
                    }
                    probe.report.count("random_strings", *n as u64);
                }
                Job::Lists { n, index } => {
                    let mut rng = Rng::derive(seed, "c09-lists", *index);
                    for _ in 0..*n {
                        let k = 1 + rng.usize_below(8);
                        let mut parts: Vec<String> = Vec::new();
                        for _ in 0..k {
                            let base = match rng.below(5) {
                                0 => nth_string(rng.below(27_000), 3),
                                1 | 2 => shapes[rng.usize_below(shapes.len())].clone(),
                                3 => NAMED[rng.usize_below(NAMED.len())].to_string(),
                                _ => tokens[rng.usize_below(tokens.len())].text(),
                            };
                            let part = match rng.below(4) {
                                0 => format!("{}:{}", base, literals[rng.usize_below(literals.len())]),
                                1 => {
                                    let digits: String = (0..1 + rng.usize_below(30)).map(|_| char::from(b'0' + rng.below(10) as u8)).collect();
                                    format!("{}:{}.{}", base, rng.below(2), digits)
                                }
                                _ => base,
                            };
                            parts.push(part);
                        }
                        let s = parts.join(if rng.chance(1, 4) { " , " } else { "," });
                        probe.run(&s, true);
                        probe.report.note_distinct(hash_str(&s));
                    }
                    probe.report.count("comma_lists", *n as u64);
                }
                Job::Weights { lo, hi } => {
                    // the same seven token bodies under every literal: the hand-off needs no complete drains here
                    probe.light = true;
                    for lit in &literals[*lo..*hi] {
                        for ex in SHAPE_EXAMPLES {
                            let s = format!("{}:{}", ex, lit);
                            probe.run(&s, false);
                            probe.report.note_distinct(hash_str(&s));
                        }
                    }
                    probe.report.count("weight_literals_on_every_shape", (*hi - *lo) as u64);
                }
                Job::ValidTokens { lo, hi } => {
                    let mut rng = Rng::derive(seed, "c09-valid", *lo as u64);
                    let mut list: Vec<String> = Vec::new();
                    for t in &tokens[*lo..*hi] {
                        let bare = t.text();
                        let weighted = format!("{}:{}", bare, literals[rng.usize_below(literals.len())]);
                        probe.run(&bare, true);
                        probe.run(&weighted, true);
                        list.push(if rng.chance(1, 2) { bare } else { weighted });
                    }
                    probe.run(&list.join(","), true);
                    probe.report.count("well_formed_tokens_probed", (*hi - *lo) as u64);
                }
                Job::CaseVariants { lo, hi } => {
                    let mut rng = Rng::derive(seed, "c09-case", *lo as u64);
                    let flip = |c: char, rng: &mut Rng| -> char {
                        if rng.chance(1, 2) {
                            if c.is_ascii_uppercase() {
                                c.to_ascii_lowercase()
                            } else {
                                c.to_ascii_uppercase()
                            }
                        } else {
                            c
                        }
                    };
                    let mut n = 0u64;
                    for t in &tokens[*lo..*hi] {
                        for text in [t.text(), format!("{}:0.5", t.text())] {
                            for _ in 0..2 {
                                let v: String = text.chars().map(|c| flip(c, &mut rng)).collect();
                                if v != text {
                                    probe.run(&v, false);
                                    probe.report.note_distinct(hash_str(&v));
                                    n += 1;
                                }
                            }
                        }
                    }
                    // every rank pair spelled with one rank letter in both cases (pocket/suited/offsuit shapes)
                    if *lo == 0 {
                        for r in ["A", "K", "Q", "J", "T"] {
                            let l = r.to_lowercase();
                            for tail in ["", "s", "o", "+", "s+", "o+", "s:0.5"] {
                                for v in [format!("{}{}{}", r, l, tail), format!("{}{}{}", l, r, tail), format!("{}{}{}", l, l, tail)] {
                                    probe.run(&v, false);
                                    n += 1;
                                }
                            }
                        }
                        for a in OTHER_CASE {
                            for b in ALPHABET.iter().chain(OTHER_CASE.iter()) {
                                for c in ["", "s", "o", "+"] {
                                    probe.run(&format!("{}{}{}", a, b, c), false);
                                    probe.run(&format!("{}{}{}", b, a, c), false);
                                    n += 2;
                                }
                            }
                        }
                    }
                    probe.report.count("strings_with_letters_in_the_other_case", n);
                }
                Job::Extremes => {
                    // lists expanding to far more than 65536 entries
                    for (tok, times) in [("A2o+:0.5", 460usize), ("22+", 900), ("A2o+", 1200), ("K2o+:0.25", 700)] {
                        let s = vec![tok; times].join(",");
                        probe.run(&s, false);
                    }
                    let mut rng = Rng::derive(seed, "c09-extremes", 0);
                    let wide: Vec<String> = (0..1500).map(|_| ["22+", "A2o+", "K2o+", "Q2o+", "A2s+", "J2o+:0.5", "T2o+:0.1"][rng.usize_below(7)].to_string()).collect();
                    probe.run(&wide.join(","), false);
                    // weight literals of hundreds and thousands of digits
                    for digits in [19usize, 20, 21, 39, 40, 100, 308, 309, 310, 400, 1100, 5000] {
                        for (lead, d) in [("0", '9'), ("0", '0'), ("0", '5'), ("1", '0'), ("0", '1')] {
                            let lit: String = std::iter::repeat(d).take(digits).collect();
                            for body in ["AA", "AKs+", "TT-77", "AhKd"] {
                                let s = format!("{}:{}.{}", body, lead, lit);
                                probe.run(&s, false);
                                probe.report.note_distinct(hash_str(&s));
                            }
                        }
                        // ...ending in a non-zero digit after many zeros, and random digits
                        let zeros: String = std::iter::repeat('0').take(digits).collect();
                        probe.run(&format!("AA:0.{}1", zeros), false);
                        let random: String = (0..digits).map(|_| char::from(b'0' + rng.below(10) as u8)).collect();
                        probe.run(&format!("QQ+:0.{}", random), false);
                    }
                    probe.report.count("extreme_lists_and_literals", 1);
                }
                Job::Long { index } => {
                    let mut rng = Rng::derive(seed, "c09-long", *index);
                    let target = if *index == 0 { 8 << 20 } else { 1 + rng.usize_below(64 << 10) };
                    let mut s = String::with_capacity(target + 8);
                    let unit: Vec<&str> = match index % 4 {
                        0 => vec!["A"],
                        1 => vec!["A", "K", "s", "+", "-", ":", "0", "."],
                        2 => vec!["é", "♠", "A", "2"],
                        _ => ALPHABET.iter().filter(|a| **a != ",").cloned().collect(),
                    };
                    while s.len() < target {
                        s.push_str(unit[rng.usize_below(unit.len())]);
                    }
                    probe.run(&s, false);
                    probe.report.note_distinct(hash_str(&s));
                    probe.report.max("max_string_bytes", s.len() as u64);
                    // a long list of valid tokens
                    if *index == 1 {
                        let list: Vec<String> = (0..800).map(|_| tokens[rng.usize_below(tokens.len())].text()).collect();
                        probe.run(&list.join(","), false);
                    }
                    probe.report.count("long_strings", 1);
                }
            }
}

pub fn run(ctx: &Ctx, which: Which) -> Report {
    let thorough = ctx.tier == Tier::Thorough;
    let shapes = shape_strings();
    let literals = weight_literals();
    let tokens = all_well_formed_tokens();
    let mut jobs: Vec<Job> = vec![Job::Named, Job::CardPairs, Job::Extremes];
    {
        let mut lo = 0;
        while lo < tokens.len() {
            jobs.push(Job::CaseVariants { lo, hi: (lo + 60).min(tokens.len()) });
            lo += if thorough { 60 } else { 240 };
        }
    }
    match which {
        Which::C09 => {
            let max_len = if thorough { 4 } else { 3 };
            for len in 0..=max_len {
                let total = 30u64.pow(len as u32);
                let step = 1500;
                let mut lo = 0;
                while lo < total {
                    jobs.push(Job::Short { len, lo, hi: (lo + step).min(total) });
                    lo += step;
                }
            }
            let mut lo = 0;
            while lo < shapes.len() {
                jobs.push(Job::Shapes { lo, hi: (lo + 600).min(shapes.len()), weights: thorough });
                lo += 600;
            }
            let mut lo = 0;
            while lo < tokens.len() {
                jobs.push(Job::Multibyte { lo, hi: (lo + 40).min(tokens.len()) });
                lo += 40;
            }
            let mut lo = 0;
            while lo < tokens.len() {
                jobs.push(Job::ValidTokens { lo, hi: (lo + 40).min(tokens.len()) });
                lo += 40;
            }
            for i in 0..ctx.tier.pick(60, 600) {
                jobs.push(Job::Random { n: 200, index: i as u64 });
            }
            for i in 0..ctx.tier.pick(40, 400) {
                jobs.push(Job::Lists { n: 60, index: i as u64 });
            }
            for i in 0..ctx.tier.pick(6, 24) {
                jobs.push(Job::Long { index: i as u64 });
            }
        }
        Which::C10 => {
            let mut lo = 0;
            while lo < literals.len() {
                jobs.push(Job::Weights { lo, hi: (lo + 150).min(literals.len()) });
                lo += 150;
            }
            let mut lo = 0;
            while lo < shapes.len() {
                jobs.push(Job::Shapes { lo, hi: (lo + 600).min(shapes.len()), weights: true });
                lo += if thorough { 600 } else { 2400 };
            }
            for i in 0..ctx.tier.pick(30, 300) {
                jobs.push(Job::Random { n: 200, index: i as u64 });
            }
            for i in 0..ctx.tier.pick(60, 600) {
                jobs.push(Job::Lists { n: 60, index: i as u64 });
            }
            if thorough {
                for len in 0..=3usize {
                    let total = 30u64.pow(len as u32);
                    let mut lo = 0;
                    while lo < total {
                        jobs.push(Job::Short { len, lo, hi: (lo + 1500).min(total) });
                        lo += 1500;
                    }
                }
            }
        }
    }
    let mut order = Rng::derive(ctx.seed, "c09-order", 0);
    order.shuffle(&mut jobs);
    let seed = ctx.seed;
    let tables = Tables { shapes, literals, tokens };
    let results = par_run(
        jobs.len(),
        1,
        |_| (Report::new(), ProbeStats::default()),
        |(report, stats), j| run_job(&jobs[j], which, seed, &tables, report, stats),
    );
    let mut report = Report::new();
    let mut stats = ProbeStats::default();
    for (r, s) in results {
        report.merge(r);
        stats.merge(&s);
    }
    dev_pass(ctx, which, &mut report);
    report.set("strings_tried", Json::Int(stats.strings as i128));
    report.set("strings_with_multibyte_characters", Json::Int(stats.multibyte_strings as i128));
    report.set("ok_as_rank", Json::Int(stats.ok_rank as i128));
    report.set("ok_as_suit", Json::Int(stats.ok_suit as i128));
    report.set("ok_as_card", Json::Int(stats.ok_card as i128));
    report.set("ok_as_card_pair", Json::Int(stats.ok_pair as i128));
    report.set("ok_as_token", Json::Int(stats.ok_token as i128));
    report.set("nonempty_parsed_ranges", Json::Int(stats.nonempty_ranges as i128));
    report.set("combos_checked", Json::Int(stats.combos_checked as i128));
    report.set("max_weight_seen", Json::Num(f32::from_bits(stats.max_weight_bits) as f64));
    report.set("same_card_pair_strings_answered_err", Json::Int(stats.degenerate_answered_err as i128));
    report.set("same_card_pair_strings_answered_ok_token", Json::Int(stats.degenerate_answered_dropped as i128));
    report.set("showdowns_from_parsed_ranges", Json::Int(stats.showdowns_checked as i128));
    report.exhaustive = Some(false);
    match which {
        Which::C09 => {
            report.rule = format!("one execution = one string through all six parsers under a panic recorder; every Ok value is then formatted, expanded, decomposed (rank_pairs/orphan_card_pairs) and handed to the evaluator on a short scope; strings: every string of length <= {} over a 30-symbol alphabet (notation characters, space, 2/3/4-byte characters, NUL), every string of the seven token shapes with arbitrary ranks, every well-formed token with a multi-byte character at every offset, random and long strings (one of 8 MiB), comma lists; distinct = distinct strings", if thorough { 4 } else { 3 });
            report.assumptions.push("an abort (stack overflow, allocation failure) is caught by the supervising parent process and re-run in isolation".into());
        }
        Which::C10 => {
            report.rule = "one execution = one string parsed as token and as range; every combo of every Ok result is checked for two different cards and a weight in [0,1] (NaN excluded), and every showdown enumerated from the parsed range (alone and against itself) for a probability in [0,1] and 5+2n distinct cards; strings: all 22,222 weight literals [01](.d{1,4})? on every token shape, all 52x52 two-card strings, shape strings with arbitrary ranks and weights, random strings and comma lists; distinct = distinct strings".into();
            report.assumptions.push("any answer that keeps the invariant is accepted: rejecting the token, dropping it from the range, or producing a valid weight".into());
        }
    }
    if stats.combos_checked == 0 {
        report.inconclusive("no parsed combo was observed");
    }
    for s in ["22-AA", "AsAs", "AA:1.9", "Aé", "KAs+"] {
        let tok = catch(|| s.parse::<HandRangeToken>().map(|t| t.into_iter().count()));
        let rng = catch(|| s.parse::<HandRange>().map(|r| r.card_pairs().len()));
        report.sample(Json::obj().set("text", Json::str(s)).set("as_token", Json::str(format!("{:?}", tok))).set("as_range_combos", Json::str(format!("{:?}", rng))));
    }
    report
}

/// The dev-profile batch (child built with overflow checks and debug assertions): named
/// strings, all two-card strings, short strings, a slice of the shape strings with weights, multi-byte
/// replacements, random strings and lists, and every well-formed token bare and weighted. Shard `part`.
fn dev_batch(which: Which, seed: u64, part: usize, parts: usize) -> Report {
    let tables = Tables { shapes: shape_strings(), literals: weight_literals(), tokens: all_well_formed_tokens() };
    let mut jobs: Vec<Job> = vec![Job::Named, Job::CardPairs, Job::Extremes, Job::CaseVariants { lo: 0, hi: 30 }];
    for len in 0..=2usize {
        jobs.push(Job::Short { len, lo: 0, hi: 30u64.pow(len as u32) });
    }
    // C10's invariants do not depend on the build profile the way panics do: its dev batch stays small
    let full = which == Which::C09;
    let mut lo = 0;
    while lo < tables.shapes.len() {
        jobs.push(Job::Shapes { lo, hi: (lo + 150).min(tables.shapes.len()), weights: true });
        lo += 150 * if full { 30 } else { 120 };
    }
    let mut lo = 0;
    while lo < tables.tokens.len() {
        if full {
            jobs.push(Job::Multibyte { lo, hi: (lo + 10).min(tables.tokens.len()) });
        }
        jobs.push(Job::ValidTokens { lo, hi: (lo + if full { 40 } else { 8 }).min(tables.tokens.len()) });
        lo += 40;
    }
    for i in 0..if full { 12 } else { 3 } {
        jobs.push(Job::Random { n: 100, index: 5_000 + i });
        jobs.push(Job::Lists { n: 40, index: 5_000 + i });
    }
    let mut report = Report::new();
    let mut stats = ProbeStats::default();
    for (i, job) in jobs.iter().enumerate() {
        if i % parts == part {
            run_job(job, which, seed, &tables, &mut report, &mut stats);
        }
    }
    report.count("dev_profile_strings", stats.strings);
    report
}

fn dev_pass(ctx: &Ctx, which: Which, report: &mut Report) {
    use crate::child::{self, ChildOutcome};
    let exe = match Ctx::exe_for("debug") {
        Some(e) => e,
        None => {
            report.inconclusive("no dev-profile binary available (VERIF_DEBUG_EXE not set)");
            return;
        }
    };
    let parts = 14usize;
    let id = if which == Which::C09 { "C09" } else { "C10" };
    let results = par_run(parts, 1, |_| Report::new(), |r, part| {
        let case = Json::obj().set("kind", Json::str("dev-batch")).set("seed", Json::Int(ctx.seed as i128)).set("part", Json::Int(part as i128)).set("parts", Json::Int(parts as i128));
        match child::run_case(&exe, id, &case, 8 << 20, std::time::Duration::from_secs(1200)) {
            ChildOutcome::Reported(doc) => {
                let ev = r.evaluations;
                child::merge_child_report(r, &doc, "debug:");
                r.evaluations = ev;
            }
            ChildOutcome::Crashed { signal, code, stack_overflow, stderr_tail } => r.violate(
                format!("debug:dev-batch-{}:crash", part),
                format!("[dev profile] the string batch {} died (signal {:?}, code {:?}, stack overflow {}): {}", part, signal, code, stack_overflow, stderr_tail),
                case,
            ),
            ChildOutcome::Timeout { after_s } => r.inconclusive(format!("dev-profile batch {} timed out after {:.0}s", part, after_s)),
            ChildOutcome::SpawnFailed(e) => r.inconclusive(format!("dev-profile batch {}: {}", part, e)),
        }
    });
    for r in results {
        report.merge(r);
    }
    child::cleanup_scratch();
}

pub fn replay(case: &Json, which: Which) -> Report {
    let mut report = Report::new();
    let mut stats = ProbeStats::default();
    if case.get("kind").and_then(|k| k.as_str()) == Some("dev-batch") {
        let get = |k: &str| case.get(k).and_then(|v| v.as_i128()).unwrap_or(0);
        return dev_batch(which, get("seed") as u64, get("part") as usize, (get("parts") as usize).max(1));
    }
    match case.get("text").and_then(|t| t.as_str()) {
        Some(t) => {
            let mut text = t.to_string();
            if let Some(n) = case.get("truncated_from_bytes").and_then(|v| v.as_i128()) {
                // regenerate the length by repeating the recorded prefix
                while text.len() < n as usize && !t.is_empty() {
                    text.push_str(t);
                }
            }
            Probe { light: cfg!(debug_assertions), which, report: &mut report, stats: &mut stats }.run(&text, true)
        }
        None => report.inconclusive("replay case has no text"),
    }
    report
}
