//! Range contents used by C06, C12 and C17: row patterns, patterns inside one rank pair,
//! random whole ranges, weights from the corners of [0,1].

use crate::conv::{all_pairs, card_pair, pair_text, weight_text, Pid};
use crate::json::Json;
use crate::refmodel::split::{rp_combos, Rp};
use crate::util::Rng;
use espada::hand_range::HandRange;
use std::collections::BTreeMap;

pub type Content = BTreeMap<Pid, f32>;

/// Weights in [0,1] with the sign bit clear, corners first.
pub const CORNER_WEIGHTS: [u32; 12] = [
    0x3f80_0000, // 1
    0x3f00_0000, // 0.5
    0x3dcc_cccd, // 0.1
    0x3f7f_ffff, // 0.99999994
    0x0080_0000, // f32::MIN_POSITIVE
    0x0000_0001, // 1e-45
    0x0000_0000, // 0
    0x3e80_0000, // 0.25
    0x3f40_0000, // 0.75
    0x3eaa_aaab, // 0.33333334
    0x3f7f_be77, // 0.999
    0x007f_ffff, // largest subnormal
];

pub fn corner(i: usize) -> f32 {
    f32::from_bits(CORNER_WEIGHTS[i % CORNER_WEIGHTS.len()])
}

/// Any bit pattern denoting a value in [0,1] (sign clear): 0x0000_0000 ..= 0x3f80_0000.
pub fn random_unit_bits(rng: &mut Rng) -> f32 {
    f32::from_bits(rng.below(0x3f80_0001) as u32)
}

pub fn pick_weight(rng: &mut Rng) -> f32 {
    match rng.below(4) {
        0 => random_unit_bits(rng),
        1 => rng.f64() as f32,
        _ => corner(rng.usize_below(CORNER_WEIGHTS.len())),
    }
}

/// Two different weights; one time in four they are adjacent floats (one ulp apart), so that
/// "equal weight" means == and nothing looser.
pub fn weight_pair(rng: &mut Rng) -> (f32, f32) {
    if rng.chance(1, 4) {
        let a = match rng.below(3) {
            0 => f32::from_bits(0x3e80_0000 + rng.below(0x00ff_ffff) as u32), // [0.25, 1)
            1 => corner(rng.usize_below(CORNER_WEIGHTS.len())),
            _ => random_unit_bits(rng),
        };
        let bits = a.to_bits();
        let b = if bits >= 0x3f80_0000 { f32::from_bits(bits - 1) } else { f32::from_bits(bits + 1) };
        return if rng.chance(1, 2) { (a, b) } else { (b, a) };
    }
    loop {
        let a = pick_weight(rng);
        let b = pick_weight(rng);
        if a != b {
            return (a, b);
        }
    }
}

/// The rank pairs along one notation row: kind 0 pockets (13), kind 1/2 the kickers under `high`.
pub fn row(kind: u8, high: u8) -> Vec<Rp> {
    match kind {
        0 => (0..13u8).map(|r| (0, r, r)).collect(),
        k => (high + 1..13u8).map(|y| (k, high, y)).collect(),
    }
}

/// All rows: the pocket row, then suited and offsuit rows for high cards ace..trey.
pub fn all_rows() -> Vec<(u8, u8)> {
    let mut v = vec![(0u8, 0u8)];
    for x in 0..12u8 {
        v.push((1, x));
        v.push((2, x));
    }
    v
}

/// cells[i] in {0 absent, 1 weight a, 2 weight b} over `cells_rp`.
pub fn content_from_cells(cells_rp: &[Rp], cells: &[u8], a: f32, b: f32) -> Content {
    let mut m = Content::new();
    for (rp, c) in cells_rp.iter().zip(cells.iter()) {
        let w = match c {
            1 => a,
            2 => b,
            _ => continue,
        };
        for p in rp_combos(*rp) {
            m.insert(p, w);
        }
    }
    m
}

/// Pattern over the combos of one rank pair (0 absent, 1 a, 2 b).
pub fn content_from_combo_pattern(rp: Rp, pattern: &[u8], a: f32, b: f32) -> Content {
    let mut m = Content::new();
    for (p, c) in rp_combos(rp).into_iter().zip(pattern.iter()) {
        match c {
            1 => {
                m.insert(p, a);
            }
            2 => {
                m.insert(p, b);
            }
            _ => {}
        }
    }
    m
}

/// Digits of `index` in base `base`, `len` digits, least significant first.
pub fn digits(mut index: u64, base: u64, len: usize) -> Vec<u8> {
    let mut v = Vec::with_capacity(len);
    for _ in 0..len {
        v.push((index % base) as u8);
        index /= base;
    }
    v
}

/// A random whole range: each rank pair is complete with probability `complete`, partial
/// with probability `partial`; few distinct weights so that runs form.
pub fn random_content(rng: &mut Rng, complete: f64, partial: f64) -> Content {
    let palette: Vec<f32> = (0..1 + rng.usize_below(3)).map(|_| pick_weight(rng)).collect();
    let mut m = Content::new();
    for rp in crate::refmodel::split::all_rank_pairs() {
        let x = rng.f64();
        if x < complete {
            let w = *rng.pick(&palette);
            for p in rp_combos(rp) {
                m.insert(p, w);
            }
        } else if x < complete + partial {
            for p in rp_combos(rp) {
                if rng.chance(1, 2) {
                    m.insert(p, if rng.chance(3, 4) { *rng.pick(&palette) } else { pick_weight(rng) });
                }
            }
        }
    }
    m
}

/// Uniformly random subset of the 1326 combos with density `d`.
pub fn random_subset(rng: &mut Rng, d: f64) -> Content {
    let palette: Vec<f32> = (0..1 + rng.usize_below(2)).map(|_| pick_weight(rng)).collect();
    let mut m = Content::new();
    for p in all_pairs() {
        if rng.f64() < d {
            m.insert(p, *rng.pick(&palette));
        }
    }
    m
}

pub fn to_range(content: &Content) -> HandRange {
    content.iter().map(|(p, w)| (card_pair(*p), *w)).collect()
}

pub fn read_range(range: &HandRange) -> Content {
    range.card_pairs().iter().map(|(p, w)| (crate::conv::pid_of(p), *w)).collect()
}

/// Two keys of the range that are the same two cards (a range keyed by pairs must never hold a combo
/// twice; seen only if a pair escaped normalisation).
pub fn duplicate_physical_combo(range: &HandRange) -> Option<String> {
    let mut seen: std::collections::BTreeMap<Pid, String> = std::collections::BTreeMap::new();
    for p in range.card_pairs().keys() {
        let id = crate::conv::pid_of(p);
        if let Some(prev) = seen.insert(id, format!("{:?}", p)) {
            return Some(format!("{} and {:?} are the same two cards", prev, p));
        }
    }
    None
}

/// Same keys and bit-identical weights.
pub fn same_content(a: &Content, b: &Content) -> bool {
    a.len() == b.len() && a.iter().zip(b.iter()).all(|((p, w), (q, v))| p == q && w.to_bits() == v.to_bits())
}

pub fn first_difference(want: &Content, got: &Content) -> String {
    for (p, w) in want {
        match got.get(p) {
            None => return format!("{} (weight {}) is missing", pair_text(*p), weight_text(*w)),
            Some(v) if v.to_bits() != w.to_bits() => return format!("{} has weight {} instead of {}", pair_text(*p), weight_text(*v), weight_text(*w)),
            _ => {}
        }
    }
    for (p, w) in got {
        if !want.contains_key(p) {
            return format!("{} (weight {}) appears but is not in the range", pair_text(*p), weight_text(*w));
        }
    }
    "no difference".into()
}

pub fn content_text(c: &Content) -> String {
    c.iter().map(|(p, w)| format!("{}:{}", pair_text(*p), weight_text(*w))).collect::<Vec<_>>().join(" ")
}

pub fn content_json(kind: &str, c: &Content) -> Json {
    Json::obj().set("kind", Json::str(kind)).set("content", Json::str(content_text(c)))
}

pub fn content_from_json(j: &Json) -> Option<Content> {
    let list = crate::conv::parse_combos_text(j.get("content")?.as_str()?)?;
    Some(list.into_iter().collect())
}

pub fn content_hash(c: &Content) -> u64 {
    let mut h = 0x1234u64;
    for (p, w) in c {
        h = crate::util::mix2(h, (p.0 as u64) << 40 | (p.1 as u64) << 32 | w.to_bits() as u64);
    }
    h
}
