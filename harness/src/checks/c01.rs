//! C01 — seven-card evaluation equals the true strength class; C07 — reported category.
//! One sweep, two oracles: both properties observe the same executions of `MadeHand::from`.

use crate::conv::{card, cards_text};
use crate::core::{Ctx, Report, Tier};
use crate::json::Json;
use crate::refmodel::ranker::{self, best7, category, category_name, ClassTable, CATEGORY_NAMES};
use crate::util::{catch, choose, for_each_subset, mix2, mix64, par_run_map, Rng};
use espada::card::Card;
use espada::evaluator::MadeHand;
use espada::verif_hooks::{self, Event};
use std::cell::Cell;
use std::rc::Rc;
use std::sync::atomic::{AtomicU64, Ordering};

#[derive(Clone, Copy, PartialEq, Eq)]
pub enum Which {
    C01,
    C07,
}

const SETS: u64 = 133_784_560;

struct Shared {
    set_bitmap: Vec<AtomicU64>,
    binom: [[u32; 8]; 53],
}

impl Shared {
    fn new() -> Shared {
        let mut binom = [[0u32; 8]; 53];
        for (n, row) in binom.iter_mut().enumerate() {
            for (k, v) in row.iter_mut().enumerate() {
                *v = choose(n as u64, k as u64) as u32;
            }
        }
        let words = (SETS as usize + 63) / 64;
        let mut set_bitmap = Vec::with_capacity(words);
        set_bitmap.resize_with(words, || AtomicU64::new(0));
        Shared { set_bitmap, binom }
    }

    /// Combinatorial rank of a sorted seven-card set; marks it and reports whether it is new.
    fn mark(&self, sorted: &[u8; 7]) -> bool {
        let mut rank: u64 = 0;
        for (i, c) in sorted.iter().enumerate() {
            rank += self.binom[*c as usize][i + 1] as u64;
        }
        let bit = 1u64 << (rank % 64);
        let prev = self.set_bitmap[(rank / 64) as usize].fetch_or(bit, Ordering::Relaxed);
        prev & bit == 0
    }
}

struct Worker<'a> {
    which: Which,
    seed: u64,
    shared: &'a Shared,
    table: &'static ClassTable,
    report: Report,
    last_lookup: Rc<Cell<Option<(bool, u16)>>>,
    flush_slots: Vec<u64>,
    rainbow_slots: Vec<u64>,
    classes_seen: Vec<u64>,
    cat_counts: [u64; 9],
    cat_strongest: [(u16, [u8; 7]); 9],
    cat_weakest: [(u16, [u8; 7]); 9],
    prev: Option<(MadeHand, u32)>,
    pairs_compared: u64,
    ties_seen: u64,
    new_sets: u64,
    set_cat_counts: [u64; 9],
    hook_events: u64,
    orders_full: u64,
    /// C07: names other than the nine usual ones, per oracle category (a renamed variant)
    other_names: [Option<String>; 9],
    saw_standard_name: [bool; 9],
}

/// The sendable part of a finished worker.
struct WorkerOut {
    report: Report,
    flush_slots: Vec<u64>,
    rainbow_slots: Vec<u64>,
    classes_seen: Vec<u64>,
    cat_counts: [u64; 9],
    cat_strongest: [(u16, [u8; 7]); 9],
    cat_weakest: [(u16, [u8; 7]); 9],
    pairs_compared: u64,
    ties_seen: u64,
    new_sets: u64,
    set_cat_counts: [u64; 9],
    hook_events: u64,
    orders_full: u64,
    other_names: [Option<String>; 9],
    saw_standard_name: [bool; 9],
}

fn set_bit(v: &mut [u64], i: usize) {
    v[i / 64] |= 1 << (i % 64);
}

fn popcount(v: &[u64]) -> u64 {
    v.iter().map(|w| w.count_ones() as u64).sum()
}

impl<'a> Worker<'a> {
    fn new(which: Which, seed: u64, shared: &'a Shared) -> Worker<'a> {
        let last_lookup = Rc::new(Cell::new(None));
        let l = last_lookup.clone();
        verif_hooks::set_sink(Some(Box::new(move |e: &Event| {
            if let Event::TableLookup { flush, slot } = e {
                l.set(Some((*flush, *slot)));
            }
        })));
        Worker {
            which,
            seed,
            shared,
            table: ClassTable::get(),
            report: Report::new(),
            last_lookup,
            flush_slots: vec![0; 8192 / 64],
            rainbow_slots: vec![0; 65536 / 64],
            classes_seen: vec![0; 8192 / 64],
            cat_counts: [0; 9],
            cat_strongest: [(u16::MAX, [0; 7]); 9],
            cat_weakest: [(0, [0; 7]); 9],
            prev: None,
            pairs_compared: 0,
            ties_seen: 0,
            new_sets: 0,
            set_cat_counts: [0; 9],
            hook_events: 0,
            orders_full: 0,
            other_names: Default::default(),
            saw_standard_name: [false; 9],
        }
    }

    fn finish(self) -> WorkerOut {
        verif_hooks::set_sink(None);
        WorkerOut {
            report: self.report,
            flush_slots: self.flush_slots,
            rainbow_slots: self.rainbow_slots,
            classes_seen: self.classes_seen,
            cat_counts: self.cat_counts,
            cat_strongest: self.cat_strongest,
            cat_weakest: self.cat_weakest,
            pairs_compared: self.pairs_compared,
            ties_seen: self.ties_seen,
            new_sets: self.new_sets,
            set_cat_counts: self.set_cat_counts,
            hook_events: self.hook_events,
            orders_full: self.orders_full,
            other_names: self.other_names,
            saw_standard_name: self.saw_standard_name,
        }
    }

    /// Evaluates one presentation order of a set whose oracle key is known.
    fn eval_order(&mut self, sorted: &[u8; 7], order: &[u8; 7], key: u32, class: u16) {
        let cards: [Card; 7] = [
            card(order[0]),
            card(order[1]),
            card(order[2]),
            card(order[3]),
            card(order[4]),
            card(order[5]),
            card(order[6]),
        ];
        self.report.evaluations += 1;
        self.last_lookup.set(None);
        let got = catch(|| {
            let mh = MadeHand::from(cards);
            let name = if self.which == Which::C07 { Some(format!("{:?}", mh.hand_type())) } else { None };
            (mh, name)
        });
        if let Some((flush, slot)) = self.last_lookup.get() {
            self.hook_events += 1;
            if flush {
                set_bit(&mut self.flush_slots, slot as usize & 8191);
            } else {
                set_bit(&mut self.rainbow_slots, slot as usize);
            }
        }
        let case = || {
            Json::obj()
                .set("kind", Json::str("eval"))
                .set("cards", Json::str(cards_text(order)))
        };
        let (mh, name) = match got {
            Ok(v) => v,
            Err(p) => {
                self.report.violate(
                    format!("eval-panic:{}", cards_text(order)),
                    format!("evaluating {} panicked: {}", cards_text(order), p),
                    case(),
                );
                return;
            }
        };
        let idx = mh.power_index();
        match self.which {
            Which::C01 => {
                if idx != class {
                    self.report.violate(
                        format!("index:{}", cards_text(order)),
                        format!(
                            "{} (set {}) evaluates to power index {} but its best five cards are class {} ({})",
                            cards_text(order),
                            cards_text(sorted),
                            idx,
                            class,
                            category_name(key)
                        ),
                        case(),
                    );
                }
                if let Some((pm, pkey)) = self.prev {
                    // smaller index = stronger hand; equal index = tie
                    self.pairs_compared += 1;
                    let oracle = pkey.cmp(&key).reverse(); // order of indexes implied by the keys
                    let ok = pm.cmp(&mh) == oracle
                        && pm.partial_cmp(&mh) == Some(oracle)
                        && (pm == mh) == (oracle == std::cmp::Ordering::Equal)
                        && (pm < mh) == (oracle == std::cmp::Ordering::Less)
                        && (pm > mh) == (oracle == std::cmp::Ordering::Greater)
                        && (pm <= mh) == (oracle != std::cmp::Ordering::Greater)
                        && (pm >= mh) == (oracle != std::cmp::Ordering::Less)
                        && (pm != mh) == (oracle != std::cmp::Ordering::Equal)
                        && std::cmp::max(pm, mh).power_index() == pm.power_index().max(idx)
                        && std::cmp::min(pm, mh).power_index() == pm.power_index().min(idx)
                        && { let c = mh; c == mh && c.power_index() == idx }
                        && pm.power_index().cmp(&idx) == oracle;
                    if oracle == std::cmp::Ordering::Equal {
                        self.ties_seen += 1;
                    }
                    if !ok {
                        self.report.violate(
                            format!("order:{}:{}", pm.power_index(), idx),
                            format!(
                                "hands with indexes {} and {} compare as {:?}/{:?} (==: {}), but poker rules order them {:?} ({} after the previous hand)",
                                pm.power_index(), idx, pm.cmp(&mh), pm.partial_cmp(&mh), pm == mh, oracle, cards_text(order)
                            ),
                            case(),
                        );
                    }
                }
                self.prev = Some((mh, key));
            }
            Which::C07 => {
                let expected = category_name(key);
                let name = name.unwrap_or_default();
                let cat = category(key);
                let mut problem: Option<String> = None;
                if name == expected {
                    self.saw_standard_name[cat] = true;
                    if self.other_names[cat].is_some() {
                        problem = Some(format!("hands of category {} are reported under two names, {} and {}", expected, name, self.other_names[cat].as_ref().unwrap()));
                    }
                } else if CATEGORY_NAMES.contains(&name.as_str()) {
                    problem = Some(format!("is reported as {} but its best five cards are a {}", name, expected));
                } else {
                    // not one of the nine usual names: a renamed variant is fine as long as the nine categories stay
                    // apart (one name per category, no name shared by two categories)
                    match &self.other_names[cat] {
                        None => {
                            if self.saw_standard_name[cat] || self.other_names.iter().any(|n| n.as_deref() == Some(name.as_str())) {
                                problem = Some(format!("is reported as {}, a name that does not keep the categories apart (its best five cards are a {})", name, expected));
                            }
                            self.other_names[cat] = Some(name.clone());
                        }
                        Some(n) if *n == name => {}
                        Some(n) => problem = Some(format!("hands of category {} are reported under two names, {} and {}", expected, n, name)),
                    }
                }
                if let Some(p) = problem {
                    self.report.violate(
                        format!("category:index={}", idx),
                        format!("{} (power index {}) {}", cards_text(order), idx, p),
                        case(),
                    );
                }
            }
        }
        if (idx as usize) < 8192 {
            set_bit(&mut self.classes_seen, idx as usize);
        }
        let cat = category(key);
        self.cat_counts[cat] += 1;
        if class < self.cat_strongest[cat].0 {
            self.cat_strongest[cat] = (class, *sorted);
        }
        if class > self.cat_weakest[cat].0 {
            self.cat_weakest[cat] = (class, *sorted);
        }
    }

    /// One set in one seed-hashed presentation order.
    fn eval_set(&mut self, sorted: &[u8; 7]) {
        let key = best7(sorted);
        if self.shared.mark(sorted) {
            self.new_sets += 1;
            self.set_cat_counts[category(key)] += 1;
        }
        let class = self.table.class_of(key);
        let mut order = *sorted;
        let mut h = mix2(self.seed, u64::from_le_bytes([sorted[0], sorted[1], sorted[2], sorted[3], sorted[4], sorted[5], sorted[6], 0]));
        for i in (1..7).rev() {
            h = mix64(h);
            let j = (h % (i as u64 + 1)) as usize;
            order.swap(i, j);
        }
        self.eval_order(sorted, &order, key, class);
    }

    /// One set in all 5040 presentation orders.
    fn eval_all_orders(&mut self, sorted: &[u8; 7]) {
        let key = best7(sorted);
        if self.shared.mark(sorted) {
            self.new_sets += 1;
            self.set_cat_counts[category(key)] += 1;
        }
        let class = self.table.class_of(key);
        self.orders_full += 1;
        // Heap's algorithm
        let mut a = *sorted;
        let mut c = [0usize; 7];
        self.eval_order(sorted, &a, key, class);
        let mut i = 0;
        while i < 7 {
            if c[i] < i {
                if i % 2 == 0 {
                    a.swap(0, i);
                } else {
                    a.swap(c[i], i);
                }
                self.eval_order(sorted, &a, key, class);
                c[i] += 1;
                i = 0;
            } else {
                c[i] = 0;
                i += 1;
            }
        }
    }
}

fn sorted7(mut v: [u8; 7]) -> [u8; 7] {
    v.sort_unstable();
    v
}

/// Work items of the sweep.
enum Item {
    /// every set with the given ranks of `suit` (k >= 5) plus 7-k cards of other suits
    FlushFamily { suit: u8, ranks: Vec<u8> },
    /// rank multiset (13 multiplicities) under `variants` flush-free suit assignments
    Multiset { mult: [u8; 13], variants: u32, index: u64 },
    /// `n` uniformly random sets
    Random { n: u32, index: u64 },
    /// sets drawn at random, each in all 5040 orders
    AllOrders { n: u32, index: u64 },
    /// every set whose two lowest cards are (a, b)
    Prefix { a: u8, b: u8 },
    /// a specific set in all orders
    AllOrdersOf([u8; 7]),
    /// the given ranks of `suit` plus two random fillers of other suits (dev-profile batch)
    FlushSample { suit: u8, ranks: Vec<u8> },
}

fn multisets() -> Vec<[u8; 13]> {
    fn rec(pos: usize, left: u8, cur: &mut [u8; 13], out: &mut Vec<[u8; 13]>) {
        if pos == 13 {
            if left == 0 {
                out.push(*cur);
            }
            return;
        }
        for m in 0..=left.min(4) {
            cur[pos] = m;
            rec(pos + 1, left - m, cur, out);
        }
        cur[pos] = 0;
    }
    let mut out = Vec::new();
    rec(0, 7, &mut [0; 13], &mut out);
    out
}

fn run_item(w: &mut Worker, item: &Item) {
    match item {
        Item::FlushFamily { suit, ranks } => {
            let own: Vec<u8> = ranks.iter().map(|r| r * 4 + suit).collect();
            let others: Vec<u8> = (0..52u8).filter(|c| c % 4 != *suit).collect();
            let need = 7 - own.len();
            for_each_subset(others.len(), need, |idx| {
                let mut v = [0u8; 7];
                for (i, c) in own.iter().enumerate() {
                    v[i] = *c;
                }
                for (i, j) in idx.iter().enumerate() {
                    v[own.len() + i] = others[*j];
                }
                w.eval_set(&sorted7(v));
            });
        }
        Item::Multiset { mult, variants, index } => {
            let mut rng = Rng::derive(w.seed, "multiset", *index);
            let mut done = 0;
            let mut attempts = 0;
            while done < *variants && attempts < 200 {
                attempts += 1;
                let mut v = [0u8; 7];
                let mut n = 0;
                let mut suit_count = [0u8; 4];
                for (r, m) in mult.iter().enumerate() {
                    let suits = rng.sample(4, *m as usize);
                    for s in suits {
                        v[n] = r as u8 * 4 + s as u8;
                        suit_count[s] += 1;
                        n += 1;
                    }
                }
                if suit_count.iter().any(|c| *c >= 5) {
                    continue;
                }
                done += 1;
                w.eval_set(&sorted7(v));
            }
        }
        Item::Random { n, index } => {
            let mut rng = Rng::derive(w.seed, "random-sets", *index);
            for _ in 0..*n {
                let s = rng.sample(52, 7);
                let mut v = [0u8; 7];
                for (i, c) in s.iter().enumerate() {
                    v[i] = *c as u8;
                }
                w.eval_set(&sorted7(v));
            }
        }
        Item::AllOrders { n, index } => {
            let mut rng = Rng::derive(w.seed, "all-orders", *index);
            for _ in 0..*n {
                let s = rng.sample(52, 7);
                let mut v = [0u8; 7];
                for (i, c) in s.iter().enumerate() {
                    v[i] = *c as u8;
                }
                w.eval_all_orders(&sorted7(v));
            }
        }
        Item::AllOrdersOf(set) => w.eval_all_orders(set),
        Item::FlushSample { suit, ranks } => {
            let mut rng = Rng::derive(w.seed, "flush-sample", (*suit as u64) << 16 | ranks.iter().fold(0u64, |a, r| a | 1 << r));
            let own: Vec<u8> = ranks.iter().map(|r| r * 4 + suit).collect();
            let others: Vec<u8> = (0..52u8).filter(|c| c % 4 != *suit).collect();
            for _ in 0..2 {
                let mut v = [0u8; 7];
                for (i, c) in own.iter().enumerate() {
                    v[i] = *c;
                }
                let fill = rng.sample(others.len(), 7 - own.len());
                for (i, j) in fill.iter().enumerate() {
                    v[own.len() + i] = others[*j];
                }
                w.eval_set(&sorted7(v));
            }
        }
        Item::Prefix { a, b } => {
            let rest: Vec<u8> = (b + 1..52).collect();
            for_each_subset(rest.len(), 5, |idx| {
                let v = [*a, *b, rest[idx[0]], rest[idx[1]], rest[idx[2]], rest[idx[3]], rest[idx[4]]];
                w.eval_set(&v);
            });
        }
    }
}

/// Hands at every category boundary (strongest and weakest class of each category),
/// completed to seven cards without improving the hand.
fn boundary_sets() -> Vec<[u8; 7]> {
    let texts = [
        "AsKsQsJsTs2h2d", "5s4s3s2sAs9d9h", "AsAhAdAcKs2d3h", "2s2h2d2c3s3h3d", "AsAhAdKsKh2c3d",
        "2s2h2d3s3h5c7d", "AsKsQsJs9s2h3d", "7s5s4s3s2sKdKh", "AsKhQdJcTs2h2d", "5s4h3d2cAsKdKh",
        "AsAhAdKsQh2c3d", "2s2h2d4s3h7c8d", "AsAhKsKhQd2c3d", "3s3h2s2h4d7c8d", "AsAhKsQhJd2c3d",
        "2s2h5s4h3d7c8d", "AsKhQdJc9s2h3d", "7s5h4d3c2s8h9d", "7s5h4d3c2sAhKd", "KsQsJsTs9s2h2d",
    ];
    texts
        .iter()
        .map(|t| {
            let v = crate::conv::parse_cards_text(t).unwrap();
            sorted7([v[0], v[1], v[2], v[3], v[4], v[5], v[6]])
        })
        .collect()
}

pub fn run(ctx: &Ctx, which: Which) -> Report {
    let mut report = Report::new();
    if let Err(e) = ranker::self_check() {
        report.inconclusive(format!("oracle self-check failed: {}", e));
        return report;
    }
    let mut items: Vec<Item> = Vec::new();
    let thorough = ctx.tier == Tier::Thorough;
    for set in boundary_sets() {
        items.push(Item::AllOrdersOf(set));
    }
    if thorough {
        for a in 0..52u8 {
            for b in a + 1..52u8 {
                items.push(Item::Prefix { a, b });
            }
        }
        let n_orders = if which == Which::C01 { 400_000 } else { 2_000 };
        for i in 0..(n_orders / 50) {
            items.push(Item::AllOrders { n: 50, index: i as u64 });
        }
    } else {
        for suit in 0..4u8 {
            for k in 5..=7usize {
                for_each_subset(13, k, |idx| {
                    items.push(Item::FlushFamily { suit, ranks: idx.iter().map(|r| *r as u8).collect() });
                });
            }
        }
        for (i, mult) in multisets().into_iter().enumerate() {
            items.push(Item::Multiset { mult, variants: 4, index: i as u64 });
        }
        let randoms = if which == Which::C01 { 8000 } else { 2000 };
        for i in 0..randoms {
            items.push(Item::Random { n: 1000, index: i as u64 });
        }
        let n_orders = if which == Which::C01 { 10_000 } else { 500 };
        for i in 0..(n_orders / 10) {
            items.push(Item::AllOrders { n: 10, index: i as u64 });
        }
    }
    // deterministic shuffle so that consecutive evaluations on one worker (order check) mix categories
    let mut rng = Rng::derive(ctx.seed, "item-order", 0);
    rng.shuffle(&mut items);

    let shared = Shared::new();
    let seed = ctx.seed;
    let workers = par_run_map(
        items.len(),
        1,
        |_| Worker::new(which, seed, &shared),
        |w, i| run_item(w, &items[i]),
        |w| w.finish(),
    );

    let mut flush_slots = vec![0u64; 8192 / 64];
    let mut rainbow_slots = vec![0u64; 65536 / 64];
    let mut classes_seen = vec![0u64; 8192 / 64];
    let mut cat_counts = [0u64; 9];
    let mut strongest = [(u16::MAX, [0u8; 7]); 9];
    let mut weakest = [(0u16, [0u8; 7]); 9];
    let (mut pairs, mut ties, mut new_sets, mut hook_events, mut orders_full) = (0u64, 0u64, 0u64, 0u64, 0u64);
    let mut set_cat_counts = [0u64; 9];
    let mut other_names: [Option<String>; 9] = Default::default();
    let mut saw_standard = [false; 9];
    for w in workers {
        for c in 0..9 {
            saw_standard[c] |= w.saw_standard_name[c];
            if let Some(n) = &w.other_names[c] {
                match &other_names[c] {
                    None => other_names[c] = Some(n.clone()),
                    Some(m) if m == n => {}
                    Some(m) => report.violate(format!("category-names:{}", CATEGORY_NAMES[c]), format!("hands of category {} are reported under two names, {} and {}", CATEGORY_NAMES[c], m, n), Json::Null),
                }
            }
        }
        for (a, b) in flush_slots.iter_mut().zip(w.flush_slots.iter()) {
            *a |= *b;
        }
        for (a, b) in rainbow_slots.iter_mut().zip(w.rainbow_slots.iter()) {
            *a |= *b;
        }
        for (a, b) in classes_seen.iter_mut().zip(w.classes_seen.iter()) {
            *a |= *b;
        }
        for c in 0..9 {
            cat_counts[c] += w.cat_counts[c];
            set_cat_counts[c] += w.set_cat_counts[c];
            if w.cat_strongest[c].0 < strongest[c].0 {
                strongest[c] = w.cat_strongest[c];
            }
            if w.cat_weakest[c].0 > weakest[c].0 {
                weakest[c] = w.cat_weakest[c];
            }
        }
        pairs += w.pairs_compared;
        ties += w.ties_seen;
        new_sets += w.new_sets;
        hook_events += w.hook_events;
        orders_full += w.orders_full;
        report.merge(w.report);
    }
    for c in 0..9 {
        if let Some(n) = &other_names[c] {
            if saw_standard[c] || (0..9).any(|d| d != c && other_names[d].as_deref() == Some(n.as_str())) {
                report.violate(format!("category-names:{}", CATEGORY_NAMES[c]), format!("the name {} does not keep category {} apart from the others", n, CATEGORY_NAMES[c]), Json::Null);
            }
            report.set(&format!("renamed_category_{}", CATEGORY_NAMES[c]), Json::str(n.clone()));
        }
    }
    report.distinct_extra = new_sets;
    report.rule = "executions of MadeHand::from observed by the best-of-21 five-card oracle; distinct = distinct seven-card sets, counted with a 133,784,560-bit map indexed by the combinatorial rank of the set (every set is non-trivial: the property quantifies over all of them); each set is presented in a seed-hashed order, selected sets in all 5040 orders".into();
    report.exhaustive = Some(thorough && new_sets == SETS);
    report.set("distinct_sets", Json::Int(new_sets as i128));
    report.set("all_sets", Json::Int(SETS as i128));
    report.set("sets_in_all_5040_orders", Json::Int(orders_full as i128));
    report.set("distinct_power_indexes_seen", Json::Int(popcount(&classes_seen) as i128));
    report.set("distinct_flush_table_slots_touched", Json::Int(popcount(&flush_slots) as i128));
    report.set("distinct_noflush_table_slots_touched", Json::Int(popcount(&rainbow_slots) as i128));
    report.set("table_lookup_hook_events", Json::Int(hook_events as i128));
    report.set("pairs_compared", Json::Int(pairs as i128));
    report.set("ties_seen", Json::Int(ties as i128));
    let mut per_cat = Json::obj();
    for c in (0..9).rev() {
        if cat_counts[c] == 0 {
            continue;
        }
        per_cat.put(
            CATEGORY_NAMES[c],
            Json::obj()
                .set("evaluations", Json::Int(cat_counts[c] as i128))
                .set("strongest_class_seen", Json::Int(strongest[c].0 as i128))
                .set("strongest_hand", Json::str(cards_text(&strongest[c].1)))
                .set("weakest_class_seen", Json::Int(weakest[c].0 as i128))
                .set("weakest_hand", Json::str(cards_text(&weakest[c].1))),
        );
    }
    report.set("per_category", per_cat);
    if hook_events == 0 {
        report.inconclusive("the table-lookup hook never fired: the evaluator was not observed");
    }
    // the same evaluator built with overflow checks and debug assertions
    dev_pass(ctx, which, &mut report);
    // the category names this build uses (a renamed variant is no alarm as long as the categories stay apart)
    let vocabulary: Vec<String> = (0..9).map(|c| other_names[c].clone().unwrap_or_else(|| CATEGORY_NAMES[c].to_string())).collect();
    pool_stress(ctx, which, &vocabulary, &mut report);
    super::firstuse::run_children_with(ctx, "eval", 24, &vocabulary, &mut report);
    if thorough {
        // the oracle must reproduce the published category frequencies over all sets
        report.set("oracle_category_frequencies_over_all_sets", Json::arr(set_cat_counts.iter().map(|c| Json::Int(*c as i128))));
        if new_sets == SETS && set_cat_counts != ranker::SEVEN_CARD_CATEGORY_FREQ {
            report.inconclusive(format!("the oracle's category frequencies {:?} differ from the published ones {:?}: the oracle, not espada, is suspect", set_cat_counts, ranker::SEVEN_CARD_CATEGORY_FREQ));
        }
        if new_sets != SETS {
            report.inconclusive(format!("thorough sweep marked {} of {} sets", new_sets, SETS));
        }
    }
    // samples: the boundary hands
    for set in boundary_sets().iter().take(8) {
        let cards: Vec<Card> = set.iter().map(|c| card(*c)).collect();
        let arr: [Card; 7] = [cards[0], cards[1], cards[2], cards[3], cards[4], cards[5], cards[6]];
        if let Ok((idx, name)) = catch(|| {
            let mh = MadeHand::from(arr);
            (mh.power_index(), format!("{:?}", mh.hand_type()))
        }) {
            let key = best7(set);
            report.sample(
                Json::obj()
                    .set("cards", Json::str(cards_text(set)))
                    .set("observed_power_index", Json::Int(idx as i128))
                    .set("observed_category", Json::str(name))
                    .set("oracle_class", Json::Int(ClassTable::get().class_of(key) as i128))
                    .set("oracle_category", Json::str(category_name(key))),
            );
        }
    }
    report.assumptions.push("the oracle is the textbook ranking (category, then tie-break ranks) numbered by position among the 7462 distinct five-card values; its anchors and per-category class counts are self-checked before the run".into());
    if !thorough {
        report.assumptions.push("quick tier: every set with five or more cards of one suit (all flush-table executions), every rank multiset under four flush-free suit assignments (every no-flush slot), random sets; the 7! presentation orders are sampled except for the sets listed under sets_in_all_5040_orders".into());
    } else {
        report.assumptions.push("thorough tier: every one of the C(52,7) sets once in a seed-hashed order; the order dimension (7! per set) is exhausted only for sets_in_all_5040_orders sets".into());
    }
    report
}

/// Many threads evaluating a small pool of hands over and over, each result compared with the oracle:
/// evaluation must stay a function of the seven cards when it is called concurrently (a shared memo or
/// cache inside the evaluator would have to get every concurrent publication right).
fn pool_stress(ctx: &Ctx, which: Which, vocabulary: &[String], report: &mut Report) {
    let table = ClassTable::get();
    let threads = crate::util::threads().max(2);
    let per_thread: u64 = ctx.tier.pick(3_000_000, 20_000_000);
    let mut total = 0u64;
    for (pi, pool_size) in [2usize, 16, 256, 4096, 65_536].iter().enumerate() {
        let mut rng = Rng::derive(ctx.seed, "c01-pool", pi as u64);
        let pool: Vec<([Card; 7], u16, [u8; 7], &str)> = (0..*pool_size)
            .map(|_| {
                let s = rng.sample(52, 7);
                let ids = [s[0] as u8, s[1] as u8, s[2] as u8, s[3] as u8, s[4] as u8, s[5] as u8, s[6] as u8];
                let cards = [card(ids[0]), card(ids[1]), card(ids[2]), card(ids[3]), card(ids[4]), card(ids[5]), card(ids[6])];
                let key = best7(&sorted7(ids));
                (cards, table.class_of(key), ids, vocabulary[category(key)].as_str())
            })
            .collect();
        let pool = &pool;
        let bad: Vec<Vec<(usize, u16)>> = std::thread::scope(|scope| {
            let mut handles = Vec::new();
            for t in 0..threads {
                let seed = ctx.seed;
                handles.push(scope.spawn(move || {
                    let mut rng = Rng::derive(seed, "c01-pool-thread", (pi * 1000 + t) as u64);
                    let mut bad: Vec<(usize, u16)> = Vec::new();
                    let per_thread = if which == Which::C07 { per_thread / 4 } else { per_thread };
                    for _ in 0..per_thread {
                        let i = rng.usize_below(pool.len());
                        let hand = MadeHand::from(pool[i].0);
                        let got = hand.power_index();
                        let ok = match which {
                            Which::C01 => got == pool[i].1,
                            Which::C07 => format!("{:?}", hand.hand_type()) == pool[i].3,
                        };
                        if !ok && bad.len() < 8 {
                            bad.push((i, got));
                        }
                    }
                    bad
                }));
            }
            handles.into_iter().map(|h| h.join().unwrap_or_default()).collect()
        });
        total += per_thread * threads as u64;
        for (i, got) in bad.into_iter().flatten() {
            let ids = pool[i].2;
            report.violate(
                format!("concurrent-eval:{}", cards_text(&ids)),
                format!("{} evaluates to index {} / a wrong category while {} threads evaluate a pool of {} hands concurrently; its class is {} ({})", cards_text(&ids), got, threads, pool_size, pool[i].1, pool[i].3),
                Json::obj().set("kind", Json::str("eval")).set("cards", Json::str(cards_text(&ids))),
            );
        }
    }
    report.evaluations += total;
    report.set("concurrent_pool_evaluations", Json::Int(total as i128));
}

/// The dev-profile batch (runs in a child built with overflow checks and debug assertions):
/// every rank multiset under two flush-free suit assignments, every flush mask of one suit
/// with two random fillers, random sets; shard `part` of `parts`.
fn dev_batch(which: Which, seed: u64, part: usize, parts: usize) -> Report {
    let shared = Shared::new();
    let mut w = Worker::new(which, seed, &shared);
    let mut items: Vec<Item> = Vec::new();
    for (i, mult) in multisets().into_iter().enumerate() {
        items.push(Item::Multiset { mult, variants: 2, index: i as u64 });
    }
    for suit in 0..4u8 {
        for k in 5..=7usize {
            for_each_subset(13, k, |idx| {
                items.push(Item::FlushSample { suit, ranks: idx.iter().map(|r| *r as u8).collect() });
            });
        }
    }
    for i in 0..40 {
        items.push(Item::Random { n: 1000, index: 1_000_000 + i });
    }
    for (i, item) in items.iter().enumerate() {
        if i % parts == part {
            run_item(&mut w, item);
        }
    }
    let out = w.finish();
    let mut report = out.report;
    report.count("dev_profile_evaluations", report.evaluations);
    report
}

/// Parent side of the dev-profile pass.
fn dev_pass(ctx: &Ctx, which: Which, report: &mut Report) {
    use crate::child::{self, ChildOutcome};
    let exe = match Ctx::exe_for("debug") {
        Some(e) => e,
        None => {
            report.inconclusive("no dev-profile binary available (VERIF_DEBUG_EXE not set)");
            return;
        }
    };
    let parts = 12usize;
    let id = if which == Which::C01 { "C01" } else { "C07" };
    let results = crate::util::par_run(parts, 1, |_| Report::new(), |r, part| {
        let case = Json::obj().set("kind", Json::str("dev-batch")).set("seed", Json::Int(ctx.seed as i128)).set("part", Json::Int(part as i128)).set("parts", Json::Int(parts as i128));
        match child::run_case(&exe, id, &case, 8 << 20, std::time::Duration::from_secs(900)) {
            ChildOutcome::Reported(doc) => {
                let ev = r.evaluations;
                child::merge_child_report(r, &doc, "debug:");
                r.evaluations = ev;
            }
            ChildOutcome::Crashed { signal, code, stack_overflow, stderr_tail } => r.violate(
                format!("debug:dev-batch-{}:crash", part),
                format!("[dev profile] the evaluation batch {} died (signal {:?}, code {:?}, stack overflow {}): {}", part, signal, code, stack_overflow, stderr_tail),
                case,
            ),
            ChildOutcome::Timeout { after_s } => r.inconclusive(format!("dev-profile batch {} timed out after {:.0}s", part, after_s)),
            ChildOutcome::SpawnFailed(e) => r.inconclusive(format!("dev-profile batch {}: {}", part, e)),
        }
    });
    for r in results {
        report.merge(r);
    }
    child::cleanup_scratch();
}

pub fn replay(case: &Json, which: Which) -> Report {
    let mut report = Report::new();
    if case.get("kind").and_then(|k| k.as_str()) == Some("dev-batch") {
        let get = |k: &str| case.get(k).and_then(|v| v.as_i128()).unwrap_or(0);
        return dev_batch(which, get("seed") as u64, get("part") as usize, (get("parts") as usize).max(1));
    }
    let text = case.get("cards").and_then(|v| v.as_str()).unwrap_or("");
    let ids = match crate::conv::parse_cards_text(text) {
        Some(v) if v.len() == 7 => v,
        _ => {
            report.inconclusive("replay case has no seven cards");
            return report;
        }
    };
    let shared = Shared::new();
    let mut w = Worker::new(which, 0, &shared);
    let order = [ids[0], ids[1], ids[2], ids[3], ids[4], ids[5], ids[6]];
    let sorted = sorted7(order);
    let key = best7(&sorted);
    let class = ClassTable::get().class_of(key);
    w.eval_order(&sorted, &order, key, class);
    // also against a neighbour so that the ordering relation is exercised
    w.eval_order(&sorted, &order, key, class);
    report.merge(w.finish().report);
    report
}
