//! C12 — a range splits exactly into complete rank pairs and leftover combos.

use super::rangegen::*;
use crate::conv::{pair_text, pid_of, rank_index, weight_text, Pid};
use crate::core::{Ctx, Report, Tier};
use crate::json::Json;
use crate::refmodel::split::{all_rank_pairs, rp_combos, rp_text, split, Rp};
use crate::util::{catch, mix2, par_run, Rng};
use espada::hand_range::RankPair;
use std::collections::BTreeMap;

fn rp_of_espada(rp: &RankPair) -> Rp {
    match rp {
        RankPair::Pocket(r) => (0, rank_index(*r), rank_index(*r)),
        RankPair::Suited(h, k) => (1, rank_index(*h), rank_index(*k)),
        RankPair::Ofsuit(h, k) => (2, rank_index(*h), rank_index(*k)),
    }
}

#[derive(Default)]
pub struct SplitStats {
    pub complete: u64,
    pub leftovers: u64,
    pub probe_present_but_incomplete: u64,
    pub probe_present_mixed_weight: u64,
}

/// One range through rank_pairs() and orphan_card_pairs() against R4.
pub fn check_content(content: &Content, label: &str, report: &mut Report, stats: &mut SplitStats) {
    let range = to_range(content);
    check_range(range, content, label, report, stats);
}

/// Ranges built by the parser from texts that spell rank pairs kicker first and combos low card first.
fn check_parsed_spellings(report: &mut Report, stats: &mut SplitStats) {
    let texts = [
        "KAs", "2Ao", "KAs,QAo:0.5", "AKs,KAs:0.5", "AKs,KsAs:0.5", "KsAs,KhAh,KdAd,KcAc", "JhJs,JdJs,JcJs,JdJh,JcJh,JcJd", "8c9d,8c9h,8c9s,8d9c,8d9h,8d9s,8h9c,8h9d,8h9s,8s9c,8s9d,8s9h",
        "22+,2Ao,3As:0.25,KsAs:0.5", "T9s,9Ts:0.5,9sTs:0.25", "5To,T5o:0.5",
    ];
    for t in texts {
        match catch(|| t.parse::<espada::hand_range::HandRange>()) {
            Ok(Ok(range)) => {
                if let Some(d) = duplicate_physical_combo(&range) {
                    report.evaluations += 1;
                    report.violate(format!("combo-twice:{}", t), format!("'{}' parses to a range that holds one combo under two keys ({}): the two views cannot cover every combo exactly once", t, d), content_json("split", &read_range(&range)).set("text", Json::str(t)));
                    continue;
                }
                let content = read_range(&range);
                check_range(range, &content, &format!("parsed:{}", t), report, stats);
                report.count("parsed_ranges_with_reversed_spellings", 1);
            }
            _ => {} // rejecting such a text is the parser's business (C05/C09)
        }
    }
}

fn check_range(range: espada::hand_range::HandRange, content: &Content, label: &str, report: &mut Report, stats: &mut SplitStats) {
    report.evaluations += 1;
    let got = catch(|| (range.rank_pairs(), range.orphan_card_pairs()));
    let case = || content_json("split", content);
    let sig = |kind: &str| format!("{}:{}:{:016x}", kind, label, content_hash(content));
    let (rps, orphans) = match got {
        Ok(v) => v,
        Err(p) => {
            report.violate(sig("panic"), format!("rank_pairs()/orphan_card_pairs() panicked: {} ({})", p, short(content)), case());
            return;
        }
    };
    let oracle = split(content);
    let got_rps: BTreeMap<Rp, f32> = rps.iter().map(|(k, v)| (rp_of_espada(k), *v)).collect();
    let got_orphans: BTreeMap<Pid, f32> = orphans.iter().map(|(k, v)| (pid_of(k), *v)).collect();
    if got_rps.len() != rps.len() {
        report.violate(sig("rank-pair-twice"), format!("rank_pairs() names one rank pair under two keys ({})", short(content)), case());
    }
    // rank pairs
    for (rp, w) in &oracle.complete {
        match got_rps.get(rp) {
            None => {
                report.violate(sig("missing-rank-pair"), format!("{} is complete with weight {} but is not reported ({})", rp_text(*rp), weight_text(*w), short(content)), case());
                return;
            }
            Some(v) if v.to_bits() != w.to_bits() && !(*v == *w) => {
                report.violate(sig("rank-pair-weight"), format!("{} is reported with weight {} instead of {} ({})", rp_text(*rp), weight_text(*v), weight_text(*w), short(content)), case());
                return;
            }
            _ => {}
        }
    }
    for (rp, w) in &got_rps {
        if !oracle.complete.contains_key(rp) {
            report.violate(sig("spurious-rank-pair"), format!("{} is reported (weight {}) although not all of its combos are present with one weight ({})", rp_text(*rp), weight_text(*w), short(content)), case());
            return;
        }
    }
    // leftovers
    if !same_content(&oracle.leftovers, &got_orphans) {
        report.violate(sig("leftovers"), format!("orphan_card_pairs(): {} ({})", first_difference(&oracle.leftovers, &got_orphans), short(content)), case());
        return;
    }
    // the two views cover every combo exactly once
    let mut covered: BTreeMap<Pid, u32> = BTreeMap::new();
    for rp in got_rps.keys() {
        for p in rp_combos(*rp) {
            *covered.entry(p).or_insert(0) += 1;
        }
    }
    for p in got_orphans.keys() {
        *covered.entry(*p).or_insert(0) += 1;
    }
    if covered.len() != content.len() || covered.values().any(|c| *c != 1) || covered.keys().any(|p| !content.contains_key(p)) {
        report.violate(sig("cover"), format!("the two views do not cover every combo exactly once ({})", short(content)), case());
    }
    stats.complete += oracle.complete.len() as u64;
    stats.leftovers += oracle.leftovers.len() as u64;
    // the shortcut the property worries about: the probe combo (first of the rank pair) is there, the pair is not complete
    for (rp, combos) in crate::refmodel::split::rank_pair_table().iter() {
        if report.evaluations % 8 != 0 {
            break; // sampled statistic, not a verdict
        }
        if let Some(w) = content.get(&combos[0]) {
            if !oracle.complete.contains_key(rp) {
                if combos.iter().all(|c| content.contains_key(c)) {
                    stats.probe_present_mixed_weight += 1;
                } else {
                    stats.probe_present_but_incomplete += 1;
                }
                let _ = w;
            }
        }
    }
}

/// The same combos with the same multiset of weights, dealt out differently (rotated by one combo).
fn redistributed(c: &Content) -> Content {
    let keys: Vec<Pid> = c.keys().cloned().collect();
    let weights: Vec<f32> = c.values().cloned().collect();
    keys.iter().enumerate().map(|(i, k)| (*k, weights[(i + 1) % weights.len()])).collect()
}

fn short(c: &Content) -> String {
    if c.len() <= 14 {
        content_text(c)
    } else {
        let head: Vec<String> = c.iter().take(8).map(|(p, w)| format!("{}:{}", pair_text(*p), weight_text(*w))).collect();
        format!("{} combos: {} ...", c.len(), head.join(" "))
    }
}

enum Job {
    /// patterns lo..hi (base 3 over the combos) of one rank pair
    Patterns { rp: Rp, lo: u64, hi: u64, with_background: bool },
    Random { n: u32, index: u64 },
    /// the complete 1326-combo range with a few odd weights (and near-complete ranges)
    Full { n: u32, index: u64 },
}

pub fn run(ctx: &Ctx) -> Report {
    let thorough = ctx.tier == Tier::Thorough;
    let mut jobs: Vec<Job> = Vec::new();
    let mut rng = Rng::derive(ctx.seed, "c12-jobs", 0);
    let mut offsuit_full: Vec<Rp> = all_rank_pairs().into_iter().filter(|rp| rp.0 == 2).collect();
    rng.shuffle(&mut offsuit_full);
    if !thorough {
        offsuit_full.truncate(1);
        // always include the two ends of the grid
        offsuit_full.push((2, 0, 1));
        offsuit_full.push((2, 11, 12));
    }
    let mut exhaustive_pairs = 0u64;
    for rp in all_rank_pairs() {
        let n = rp_combos(rp).len() as u32;
        let total = 3u64.pow(n);
        let full = rp.0 != 2 || offsuit_full.contains(&rp);
        if full {
            exhaustive_pairs += 1;
            let step = 20_000u64;
            let mut lo = 0;
            while lo < total {
                jobs.push(Job::Patterns { rp, lo, hi: (lo + step).min(total), with_background: false });
                if rp.0 != 2 || thorough && lo % (8 * step) == 0 || !thorough && lo % (4 * step) == 0 {
                    jobs.push(Job::Patterns { rp, lo, hi: (lo + step).min(total), with_background: true });
                }
                lo += step;
            }
        } else {
            // 2^12 present/absent patterns are the digits {0,1} only; sample base-3 patterns instead
            jobs.push(Job::Patterns { rp, lo: 0, hi: 0, with_background: false });
        }
    }
    for i in 0..ctx.tier.pick(60, 600) {
        jobs.push(Job::Random { n: 50, index: i as u64 });
    }
    for i in 0..ctx.tier.pick(16, 160) {
        jobs.push(Job::Full { n: 8, index: i as u64 });
    }
    let seed = ctx.seed;
    let results = par_run(
        jobs.len(),
        1,
        |_| (Report::new(), SplitStats::default()),
        |(report, stats), j| match &jobs[j] {
            Job::Patterns { rp, lo, hi, with_background } => {
                let n = rp_combos(*rp).len();
                let mut rng = Rng::derive(seed, "c12-pattern", mix2(mix2(rp.0 as u64, (rp.1 as u64) << 8 | rp.2 as u64), *lo));
                let (a, b) = weight_pair(&mut rng);
                let background: Content = if *with_background {
                    let mut bg = random_content(&mut rng, 0.3, 0.3);
                    for p in rp_combos(*rp) {
                        bg.remove(&p);
                    }
                    bg
                } else {
                    Content::new()
                };
                let label = format!("{}{}", rp_text(*rp), if *with_background { "+bg" } else { "" });
                let run_one = |index: u64, report: &mut Report, stats: &mut SplitStats| {
                    let pattern = digits(index, 3, n);
                    let mut content = content_from_combo_pattern(*rp, &pattern, a, b);
                    for (p, w) in &background {
                        content.insert(*p, *w);
                    }
                    check_content(&content, &label, report, stats);
                    report.note_distinct(mix2(mix2(crate::util::hash_str(&label), index), content_hash(&background)));
                    if index % 5 == 2 && content.len() >= 2 {
                        // straight afterwards on this thread: same combos, same weights, dealt out differently
                        let again = redistributed(&content);
                        check_content(&again, &label, report, stats);
                        report.count("follow_ups_with_redistributed_weights", 1);
                    }
                };
                if *hi > *lo {
                    for index in *lo..*hi {
                        run_one(index, report, stats);
                    }
                    report.count("in_rank_pair_patterns", *hi - *lo);
                } else {
                    // sampled patterns for the offsuit pairs not swept completely
                    let total = 3u64.pow(n as u32);
                    for _ in 0..3000 {
                        let index = rng.below(total);
                        run_one(index, report, stats);
                    }
                    // all complete/one-missing patterns
                    let full: u64 = (0..n).map(|i| 3u64.pow(i as u32)).sum(); // all digits 1
                    run_one(full, report, stats);
                    run_one(2 * full, report, stats);
                    for i in 0..n {
                        run_one(full - 3u64.pow(i as u32), report, stats);
                        run_one(full + 3u64.pow(i as u32), report, stats);
                    }
                    report.count("in_rank_pair_patterns_sampled", 3002 + 2 * n as u64);
                }
            }
            Job::Full { n, index } => {
                let mut rng = Rng::derive(seed, "c12-full", *index);
                let all = crate::conv::all_pairs();
                for k in 0..*n {
                    let (a, b) = weight_pair(&mut rng);
                    let mut content: Content = all.iter().map(|p| (*p, a)).collect();
                    // 0..5 combos with the other weight, 0..2 combos removed
                    for _ in 0..(k % 6) {
                        content.insert(all[rng.usize_below(all.len())], b);
                    }
                    for _ in 0..(k % 3) {
                        content.remove(&all[rng.usize_below(all.len())]);
                    }
                    check_content(&content, "full", report, stats);
                    report.note_distinct(content_hash(&content));
                }
                report.count("complete_and_near_complete_1326_ranges", *n as u64);
            }
            Job::Random { n, index } => {
                let mut rng = Rng::derive(seed, "c12-random", *index);
                for _ in 0..*n {
                    let content = if rng.chance(1, 2) {
                        let (c, p) = (rng.f64() * 0.8, rng.f64() * 0.5);
                        random_content(&mut rng, c, p)
                    } else {
                        let d = rng.f64();
                        random_subset(&mut rng, d)
                    };
                    check_content(&content, "random", report, stats);
                    report.note_distinct(content_hash(&content));
                    if content.len() >= 2 {
                        let again = redistributed(&content);
                        check_content(&again, "random", report, stats);
                        report.count("follow_ups_with_redistributed_weights", 1);
                    }
                }
                report.count("random_whole_ranges", *n as u64);
            }
        },
    );
    let mut report = Report::new();
    let mut stats = SplitStats::default();
    check_parsed_spellings(&mut report, &mut stats);
    for (r, s) in results {
        report.merge(r);
        stats.complete += s.complete;
        stats.leftovers += s.leftovers;
        stats.probe_present_but_incomplete += s.probe_present_but_incomplete;
        stats.probe_present_mixed_weight += s.probe_present_mixed_weight;
    }
    report.set("rank_pairs_with_all_3_pow_n_patterns", Json::Int(exhaustive_pairs as i128));
    report.set("complete_rank_pairs_seen", Json::Int(stats.complete as i128));
    report.set("leftover_combos_seen", Json::Int(stats.leftovers as i128));
    report.set("probe_combo_present_but_pair_incomplete", Json::Int(stats.probe_present_but_incomplete as i128));
    report.set("probe_combo_present_all_combos_present_mixed_weights", Json::Int(stats.probe_present_mixed_weight as i128));
    report.exhaustive = Some(thorough);
    report.rule = "one execution = rank_pairs() and orphan_card_pairs() of one real HandRange compared with the exact split R4 (complete equal-weight rank pairs with their weight, leftovers with their own weights, the two views covering every combo exactly once); distinct = distinct (rank pair, pattern, background) / distinct random contents".into();
    report.assumptions.push("'same weight' is f32 ==; weights are finite, in [0,1], sign bit clear; the two pattern weights differ".into());
    if thorough {
        report.assumptions.push("exhaustive means: all 3^6, 3^4 and 3^12 patterns inside every one of the 169 rank pairs (alone; a subset again over a random background)".into());
    }
    let demo = content_from_combo_pattern((0, 3, 3), &[1, 1, 1, 1, 1, 2], 1.0, 0.5);
    let r = to_range(&demo);
    report.sample(Json::obj().set("content", Json::str(content_text(&demo))).set("observed_rank_pairs", Json::Int(r.rank_pairs().len() as i128)).set("observed_leftovers", Json::Int(r.orphan_card_pairs().len() as i128)));
    let demo = content_from_combo_pattern((1, 0, 1), &[1, 1, 1, 1], 0.25, 0.5);
    let r = to_range(&demo);
    report.sample(Json::obj().set("content", Json::str(content_text(&demo))).set("observed_rank_pairs", Json::str(format!("{:?}", r.rank_pairs()))).set("observed_leftovers", Json::Int(r.orphan_card_pairs().len() as i128)));
    report
}

pub fn replay(case: &Json) -> Report {
    let mut report = Report::new();
    match content_from_json(case) {
        Some(c) => check_content(&c, "replay", &mut report, &mut SplitStats::default()),
        None => report.inconclusive("replay case has no range content"),
    }
    report
}
