//! C04 — scoped evaluators tile the enumeration.

use super::enumcase::EnumCase;
use crate::child::{self, ChildOutcome};
use crate::conv::{parse_cards_text, pid, Combos};
use crate::core::{Ctx, Report, Tier};
use crate::drive::{self, view, view_text, Scope};
use crate::json::Json;
use crate::refmodel::enumerate::{deal_hash, deck49, Bucket, Config};
use crate::refmodel::scope::{from_linear, linear, successor, POSITIONS, TERMINAL};
use crate::util::{catch, mix2, par_run, Rng};
use crate::workload::{clustered_range, random_range, textured_flop, WeightMode};
use espada::hand_range::HandRange;
use std::time::Duration;

pub struct Baseline {
    pub case: EnumCase,
    pub cfg: Config,
    pub ranges: Vec<HandRange>,
    deck_index: [u8; 52],
    /// fingerprint of the unscoped run at each position
    per_pos: Vec<Bucket>,
    /// positions where the unscoped run yields something, ascending
    nonempty: Vec<usize>,
    pub total: u64,
}

/// Linear position of a showdown's board, demanding turn index < river index.
fn position(deck_index: &[u8; 52], board: &[u8; 5]) -> Option<usize> {
    let t = deck_index[board[3] as usize];
    let r = deck_index[board[4] as usize];
    if t == 255 || r == 255 || t >= r {
        return None;
    }
    Some(linear((t, r)))
}

/// The unscoped run, which must itself be in position order.
pub fn baseline(case: &EnumCase, report: &mut Report) -> Option<Baseline> {
    let (ranges, cfg) = match case.build() {
        Ok(v) => v,
        Err(e) => {
            report.inconclusive(format!("case {} cannot be built: {}", case.label, e));
            return None;
        }
    };
    drive::reset_budget();
    let deck = deck49(&cfg.flop);
    let mut deck_index = [255u8; 52];
    for (i, c) in deck.iter().enumerate() {
        deck_index[*c as usize] = i as u8;
    }
    let mut per_pos = vec![Bucket::default(); POSITIONS];
    let mut last = 0usize;
    let mut total = 0u64;
    let mut problem: Option<String> = None;
    let r = catch(|| {
        for sd in drive::evaluator(&cfg, &ranges, None) {
            let v = view(&sd);
            total += 1;
            match position(&deck_index, &v.board) {
                Some(p) => {
                    if p < last && problem.is_none() {
                        problem = Some(format!("the unscoped run steps back from position {:?} to {:?}: {}", from_linear(last), from_linear(p), view_text(&v)));
                    }
                    last = last.max(p);
                    per_pos[p].add(deal_hash(v.board[3], v.board[4], &v.combos));
                }
                None => {
                    if problem.is_none() {
                        problem = Some(format!("board is not (turn index < river index) into the unseen cards: {}", view_text(&v)));
                    }
                }
            }
        }
    });
    if let Err(p) = r {
        problem = Some(format!("the unscoped run panicked: {}", p));
    }
    if let Some(p) = problem {
        report.violate(format!("{}:unscoped-order", case.signature()), format!("{}: {}", case.label, p), scope_case(case, &[]));
        return None;
    }
    let nonempty = (0..POSITIONS).filter(|i| per_pos[*i].count > 0).collect();
    Some(Baseline { case: case.clone(), cfg, ranges, deck_index, per_pos, nonempty, total })
}

fn scope_case(case: &EnumCase, scopes: &[Scope]) -> Json {
    let mut j = case.to_json();
    j.put("kind", Json::str("scopes"));
    j.put(
        "scopes",
        Json::arr(scopes.iter().map(|(f, t)| Json::arr([Json::Int(f.0 as i128), Json::Int(f.1 as i128), Json::Int(t.0 as i128), Json::Int(t.1 as i128)]))),
    );
    j
}

/// One scoped run compared with the unscoped one. Returns the showdowns it yielded.
pub fn check_scope(base: &Baseline, from: (u8, u8), to: (u8, u8), report: &mut Report) -> u64 {
    let lf = linear(from);
    let lt = linear(to);
    debug_assert!(lf <= lt);
    // expected groups: nonempty positions in [lf, lt)
    let start = base.nonempty.partition_point(|p| *p < lf);
    let end = base.nonempty.partition_point(|p| *p < lt);
    let expected = &base.nonempty[start..end];
    let mut next_group = 0usize; // index into expected of the group being filled / awaited
    let mut cur: Option<(usize, Bucket)> = None;
    let mut problem: Option<String> = None;
    let mut yielded = 0u64;
    let mut late = 0u32;
    let close = |cur: &mut Option<(usize, Bucket)>, next_group: &mut usize, problem: &mut Option<String>| {
        if let Some((p, b)) = cur.take() {
            if *next_group < expected.len() && expected[*next_group] == p {
                if b != base.per_pos[p] && problem.is_none() {
                    *problem = Some(format!("at position {:?} the scoped run yields {} showdowns, the unscoped run {} (or other deals)", from_linear(p), b.count, base.per_pos[p].count));
                }
                *next_group += 1;
            } else if problem.is_none() {
                let want = if *next_group < expected.len() { format!("{:?}", from_linear(expected[*next_group])) } else { "the end".to_string() };
                *problem = Some(format!("position {:?} is yielded where {} is due", from_linear(p), want));
            }
        }
    };
    let r = catch(|| {
        let mut it = drive::evaluator(&base.cfg, &base.ranges, Some((from, to))).into_iter();
        while let Some(sd) = it.next() {
            yielded += 1;
            if yielded > base.total + 8 {
                if problem.is_none() {
                    problem = Some("the scoped run yields more showdowns than the whole unscoped run".into());
                }
                break;
            }
            let v = view(&sd);
            let p = match position(&base.deck_index, &v.board) {
                Some(p) => p,
                None => {
                    if problem.is_none() {
                        problem = Some(format!("board is not (turn index < river index): {}", view_text(&v)));
                    }
                    continue;
                }
            };
            if (p < lf || p >= lt) && problem.is_none() {
                problem = Some(format!("showdown at position {:?} lies outside the scope: {}", from_linear(p), view_text(&v)));
            }
            let same = matches!(&cur, Some((cp, _)) if *cp == p);
            if same {
                if let Some((_, b)) = cur.as_mut() {
                    b.add(deal_hash(v.board[3], v.board[4], &v.combos));
                }
            } else {
                close(&mut cur, &mut next_group, &mut problem);
                let mut b = Bucket::default();
                b.add(deal_hash(v.board[3], v.board[4], &v.combos));
                cur = Some((p, b));
            }
        }
        close(&mut cur, &mut next_group, &mut problem);
        for _ in 0..3 {
            if it.next().is_some() {
                late += 1;
            }
        }
    });
    report.evaluations += 1;
    let sig = format!("{}:scope({},{})-({},{})", base.case.signature(), from.0, from.1, to.0, to.1);
    let case_json = || scope_case(&base.case, &[(from, to)]);
    if let Err(p) = r {
        report.violate(format!("{}:panic@{}", sig, crate::util::panic_site(&p)), format!("{} scoped to [{:?},{:?}) panicked: {} ({})", base.case.label, from, to, p, super::c02::cfg_short(&base.cfg)), case_json());
        return yielded;
    }
    if problem.is_none() && next_group < expected.len() {
        problem = Some(format!("the scoped run ends before position {:?}, which the unscoped run fills ({} of {} positions seen)", from_linear(expected[next_group]), next_group, expected.len()));
    }
    if let Some(p) = problem {
        report.violate(format!("{}:differs", sig), format!("{} scoped to [{:?},{:?}): {} ({})", base.case.label, from, to, p, super::c02::cfg_short(&base.cfg)), case_json());
    }
    // the same scoped run through collect() and count()
    if yielded <= 400 && (lf + lt) % 7 == 0 {
        let other = catch(|| {
            let collected = drive::evaluator(&base.cfg, &base.ranges, Some((from, to))).into_iter().collect::<Vec<_>>().len() as u64;
            let counted = drive::evaluator(&base.cfg, &base.ranges, Some((from, to))).into_iter().count() as u64;
            (collected, counted)
        });
        report.count("scoped_runs_also_drained_by_collect_and_count", 1);
        if other != Ok((yielded, yielded)) {
            report.violate(format!("{}:collect-count", sig), format!("{} scoped to [{:?},{:?}): a next() loop yields {} showdowns, collect()/count() give {:?}", base.case.label, from, to, yielded, other), case_json());
        }
    }
    if late > 0 {
        report.violate(format!("{}:revives", sig), format!("{} scoped to [{:?},{:?}): next() returned Some {} times after it had returned None", base.case.label, from, to, late), case_json());
    }
    yielded
}

/// A chain of consecutive scopes over cut points (linear positions, first 0, last 1176).
fn check_chain(base: &Baseline, cuts: &[usize], report: &mut Report) {
    let mut total = 0u64;
    for w in cuts.windows(2) {
        total += check_scope(base, from_linear(w[0]), from_linear(w[1]), report);
    }
    report.count("chains", 1);
    report.count("chain_scopes", (cuts.len() - 1) as u64);
    if total != base.total {
        report.violate(
            format!("{}:chain-total:{:016x}", base.case.signature(), crate::util::hash_str(&format!("{:?}", cuts))),
            format!("{}: a chain of {} consecutive scopes yields {} showdowns in total, the single run {} (cuts {:?})", base.case.label, cuts.len() - 1, total, base.total, cuts.iter().map(|c| from_linear(*c)).collect::<Vec<_>>()),
            scope_case(&base.case, &cuts.windows(2).map(|w| (from_linear(w[0]), from_linear(w[1]))).collect::<Vec<_>>()),
        );
    }
}

/// `scope()` called several times: the last call decides.
fn check_rescope(base: &Baseline, first: Scope, second: Scope, report: &mut Report) {
    let r = catch(|| {
        drive::allow(&base.ranges);
        let mut e = espada::evaluator::FlopExhaustiveEvaluator::new(&drive::board_of(&base.cfg.flop), &base.ranges);
        e.scope(first.0 .0, first.0 .1, first.1 .0, first.1 .1);
        e.scope(second.0 .0, second.0 .1, second.1 .0, second.1 .1);
        e.into_iter().map(|sd| view(&sd)).collect::<Vec<_>>()
    });
    let direct = catch(|| drive::evaluator(&base.cfg, &base.ranges, Some(second)).into_iter().map(|sd| view(&sd)).collect::<Vec<_>>());
    report.evaluations += 1;
    report.count("rescope_runs", 1);
    if r != direct {
        report.violate(
            format!("{}:rescope", base.case.signature()),
            format!("{}: scope({:?}) then scope({:?}) differs from scope({:?}) alone", base.case.label, first, second, second),
            scope_case(&base.case, &[first, second]),
        );
    }
}

fn flop(text: &str) -> [u8; 3] {
    let v = parse_cards_text(text).unwrap();
    [v[0], v[1], v[2]]
}

fn combos_of(text: &str) -> Combos {
    text.split(',')
        .map(|t| {
            let (c, w) = match t.split_once(':') {
                Some((c, w)) => (c, w.parse::<f32>().unwrap()),
                None => (t, 1.0),
            };
            let v = parse_cards_text(c).unwrap();
            (pid(v[0], v[1]), w)
        })
        .collect()
}

pub fn configurations(tier: Tier, seed: u64) -> Vec<EnumCase> {
    let mut v = Vec::new();
    // the three configurations pinned by the upstream scope tests
    v.push(EnumCase::collect("upstream-1", flop("2h2d2c"), vec![combos_of("4s3h"), combos_of("4d3c")]));
    v.push(EnumCase::collect("upstream-2", flop("Jh9d3c"), vec![combos_of("As4h"), combos_of("Td8c")]));
    // a player blocked for whole turn rows at both ends of the deck, blocked positions at scope edges
    v.push(EnumCase::collect("edges", flop("Kh7d7c"), vec![combos_of("AsAh,2d2c:0.5"), combos_of("AdAc,2s2h,As2c:0.25")]));
    v.push(EnumCase::collect("one-player-one-combo", flop("AsKsQs"), vec![combos_of("2c2d")]));
    // a player without any hand: every scoped run is empty, and none may panic
    v.push(EnumCase::collect("empty-range-second", flop("Kh7d7c"), vec![combos_of("AsAh,2d2c"), vec![]]));
    v.push(EnumCase::parsed("empty-range-parsed", flop("Jh9d3c"), &["AKx", "QQ,JTs"]));
    let mut rng = Rng::derive(seed, "c04-configs", 0);
    for i in 0..tier.pick(3, 17) {
        let players = 1 + rng.usize_below(3);
        let cards: Vec<u8> = rng.sample(52, 10).into_iter().map(|c| c as u8).collect();
        let ranges: Vec<Combos> = (0..players)
            .map(|_| {
                let size = 1 + rng.usize_below(if players == 3 { 3 } else { 6 });
                if rng.chance(1, 2) {
                    clustered_range(&mut rng, &cards, size, WeightMode::Family)
                } else {
                    random_range(&mut rng, size, WeightMode::Family)
                }
            })
            .collect();
        v.push(EnumCase::collect(&format!("random-{}", i), textured_flop(&mut rng, i), ranges));
    }
    v
}

enum Job {
    /// every end in `ends(start)` for the starts in lo..hi
    Starts { cfg: usize, lo: usize, hi: usize, all_ends: bool },
    Chains { cfg: usize, n: usize, index: u64 },
    Rescope { cfg: usize, n: usize, index: u64 },
}

pub fn run(ctx: &Ctx) -> Report {
    let mut report = Report::new();
    let configs = configurations(ctx.tier, ctx.seed);
    let mut bases: Vec<Baseline> = Vec::new();
    for c in &configs {
        if let Some(b) = baseline(c, &mut report) {
            bases.push(b);
        }
    }
    let thorough = ctx.tier == Tier::Thorough;
    // which configurations get the complete (from <= to) sweep
    let full_sweep: Vec<usize> = if thorough { vec![0, 2, 4] } else { vec![] };
    let mut jobs: Vec<Job> = Vec::new();
    for (ci, _) in bases.iter().enumerate() {
        let all_ends = full_sweep.contains(&ci);
        let step = if all_ends { 4 } else { 49 };
        let mut lo = 0;
        while lo <= POSITIONS {
            jobs.push(Job::Starts { cfg: ci, lo, hi: (lo + step).min(POSITIONS + 1), all_ends });
            lo += step;
        }
        let chains = if thorough { 2500 } else { 340 };
        for k in 0..(chains / 20) {
            jobs.push(Job::Chains { cfg: ci, n: 20, index: k as u64 });
        }
        jobs.push(Job::Rescope { cfg: ci, n: if thorough { 200 } else { 40 }, index: 0 });
    }
    let seed = ctx.seed;
    let results = par_run(
        jobs.len(),
        1,
        |_| Report::new(),
        |report, j| match &jobs[j] {
            Job::Starts { cfg, lo, hi, all_ends } => {
                let base = &bases[*cfg];
                for s in *lo..*hi {
                    let from = from_linear(s);
                    let mut ends: Vec<usize> = Vec::new();
                    if *all_ends {
                        ends.extend(s..=POSITIONS);
                    } else {
                        let mut rng = Rng::derive(seed, "c04-ends", mix2(*cfg as u64, s as u64));
                        ends.push(s);
                        ends.push((s + 1).min(POSITIONS));
                        if s < POSITIONS {
                            // start of the next turn row and last position of this row
                            let next_row = linear((from.0 + 1, from.0 + 2));
                            ends.push(next_row);
                            ends.push(next_row - 1);
                        }
                        for _ in 0..3 {
                            ends.push(s + rng.usize_below(POSITIONS - s + 1));
                        }
                        ends.push(POSITIONS);
                        ends.sort_unstable();
                        ends.dedup();
                    }
                    for e in ends {
                        let to = from_linear(e);
                        let y = check_scope(base, from, to, report);
                        report.count("deals_compared", y);
                        report.note_distinct(mix2(mix2(base.case.hash(), s as u64), e as u64));
                        if e == s {
                            report.count("empty_scopes", 1);
                        }
                        if to == TERMINAL {
                            report.count("scopes_ending_at_terminal", 1);
                        }
                        if from.1 == 48 || to.1 == 48 {
                            report.count("scopes_touching_row_end", 1);
                        }
                    }
                }
            }
            Job::Chains { cfg, n, index } => {
                let base = &bases[*cfg];
                let mut rng = Rng::derive(seed, "c04-chains", mix2(*cfg as u64, *index));
                for _ in 0..*n {
                    let k = 1 + rng.usize_below(64);
                    let mut cuts: Vec<usize> = (0..k).map(|_| rng.usize_below(POSITIONS + 1)).collect();
                    if rng.chance(1, 3) {
                        // force empty scopes and row-boundary cuts
                        let c = cuts[0];
                        cuts.push(c);
                        let t = rng.below(48) as u8;
                        cuts.push(linear((t, 48)));
                        cuts.push(linear((t, t + 1)));
                    }
                    cuts.push(0);
                    cuts.push(POSITIONS);
                    cuts.sort_unstable();
                    check_chain(base, &cuts, report);
                }
            }
            Job::Rescope { cfg, n, index } => {
                let base = &bases[*cfg];
                let mut rng = Rng::derive(seed, "c04-rescope", mix2(*cfg as u64, *index));
                // the special second scopes: the whole line again, the same scope twice, an empty scope
                let whole: Scope = ((0, 1), TERMINAL);
                for _ in 0..6 {
                    let a = rng.usize_below(POSITIONS + 1);
                    let b = a + rng.usize_below(POSITIONS - a + 1);
                    let narrow: Scope = (from_linear(a), from_linear(b));
                    check_rescope(base, narrow, whole, report);
                    check_rescope(base, whole, narrow, report);
                    check_rescope(base, narrow, narrow, report);
                    check_rescope(base, narrow, (narrow.1, narrow.1), report);
                    check_rescope(base, whole, whole, report);
                }
                for _ in 0..*n {
                    let pick = |rng: &mut Rng| {
                        let a = rng.usize_below(POSITIONS + 1);
                        let b = a + rng.usize_below(POSITIONS - a + 1);
                        (from_linear(a), from_linear(b))
                    };
                    let first = pick(&mut rng);
                    let second = pick(&mut rng);
                    check_rescope(base, first, second, report);
                }
            }
        },
    );
    for r in results {
        report.merge(r);
    }
    // configurations too large to drain: the unscoped run and runs scoped to a prefix of the line agree on
    // their first showdowns
    prefix_agreement_on_huge_products(ctx, &mut report);
    // a subset again in the dev profile: scope()'s debug assertions must accept every valid scope
    if !bases.is_empty() {
        debug_profile_pass(ctx, &bases[0], &mut report);
        if bases.len() > 2 {
            debug_profile_pass(ctx, &bases[2], &mut report);
        }
        if bases.len() > 4 {
            debug_profile_pass(ctx, &bases[4], &mut report);
        }
    }
    child::cleanup_scratch();
    for b in bases.iter().take(4) {
        report.sample(b.case.summary().set("unscoped_showdowns", Json::Int(b.total as i128)).set("positions_with_showdowns", Json::Int(b.nonempty.len() as i128)));
    }
    report.set("configurations", Json::Int(bases.len() as i128));
    report.set("configurations_with_all_from_le_to_pairs", Json::Int(full_sweep.len() as i128));
    report.exhaustive = Some(thorough && !full_sweep.is_empty());
    report.rule = "one execution = one scoped run of the real evaluator compared online with the unscoped run of the same configuration: positions in lexicographic order, inside [from,to), every position's deals equal as a multiset (128-bit fingerprint), no position of the unscoped run missing, three further next() calls all None; plus chains of consecutive scopes (totals) and repeated scope() calls; distinct = distinct (configuration, from, to)".into();
    if thorough {
        report.assumptions.push("exhaustive means: all 693,253 (from <= to) pairs including the terminal (48,49), for the configurations counted under configurations_with_all_from_le_to_pairs; the other configurations get the quick tier's end set".into());
    }
    report.assumptions.push("scopes with to before from are outside the statement and not exercised".into());
    report
}

/// "An evaluator scoped to [from,to) yields exactly those showdowns of the unscoped evaluator whose board
/// lies in [from,to), position by position": for products of range sizes beyond 2^32 only a prefix can be
/// compared, which is enough to see an evaluator whose bookkeeping overflows.
fn prefix_agreement_on_huge_products(ctx: &Ctx, report: &mut Report) {
    let mut rng = Rng::derive(ctx.seed, "c04-huge", 0);
    let k = ctx.tier.pick(30_000usize, 300_000);
    for (label, sizes) in [("huge-3x200", vec![200usize, 200, 200]), ("huge-4x256", vec![256, 256, 256, 256]), ("huge-1024x1024x512", vec![1024, 1024, 512])] {
        let ranges: Vec<Combos> = sizes.iter().map(|s| random_range(&mut rng, *s, WeightMode::Family)).collect();
        let case = EnumCase::collect(label, textured_flop(&mut rng, sizes.len()), ranges);
        let (hr, cfg) = match case.build() {
            Ok(v) => v,
            Err(_) => continue,
        };
        report.evaluations += 1;
        report.count("huge_product_prefix_comparisons", 1);
        let run = |scope: Option<Scope>| catch(|| drive::evaluator(&cfg, &hr, scope).into_iter().take(k).map(|sd| drive::trace_key(&sd)).collect::<Vec<_>>());
        let whole = run(None);
        let prefix = run(Some(((0, 1), (0, 3))));
        let far = run(Some(((0, 1), (30, 40))));
        let case_json = scope_case(&case, &[((0, 1), (0, 3)), ((0, 1), (30, 40))]);
        match (&whole, &prefix, &far) {
            (Ok(w), Ok(p), Ok(f)) => {
                let at_least = crate::refmodel::enumerate::count_capped(&cfg, k as u64) as usize;
                if w.len() < at_least.min(k) || f.len() != w.len() || w[..p.len().min(w.len())] != p[..p.len().min(w.len())] || f != w {
                    report.violate(
                        format!("{}:prefix", case.signature()),
                        format!("{} (product of range sizes {}): the first {} showdowns differ: unscoped run gives {}, scoped to [(0,1),(0,3)) {}, scoped to [(0,1),(30,40)) {}; at least {} legal deals exist", label, cfg.product(), k, w.len(), p.len(), f.len(), at_least),
                        case_json,
                    );
                }
            }
            _ => report.violate(format!("{}:panic", case.signature()), format!("{}: a run panicked: {:?} / {:?} / {:?}", label, whole.as_ref().err(), prefix.as_ref().err(), far.as_ref().err()), case_json),
        }
    }
}

fn debug_profile_pass(ctx: &Ctx, base: &Baseline, report: &mut Report) {
    let exe = match Ctx::exe_for("debug") {
        Some(e) => e,
        None => {
            report.inconclusive("no dev-profile binary available (VERIF_DEBUG_EXE not set)");
            return;
        }
    };
    let mut rng = Rng::derive(ctx.seed, "c04-debug", base.case.hash());
    let mut scopes: Vec<Scope> = Vec::new();
    for s in (0..=POSITIONS).step_by(7) {
        let from = from_linear(s);
        scopes.push((from, from));
        scopes.push((from, successor(from)));
        scopes.push((from, TERMINAL));
        scopes.push((from, from_linear(s + rng.usize_below(POSITIONS - s + 1))));
    }
    let case = scope_case(&base.case, &scopes);
    report.count("dev_profile_scoped_runs", scopes.len() as u64);
    match child::run_case(&exe, "C04", &case, 8 << 20, Duration::from_secs(600)) {
        ChildOutcome::Reported(doc) => child::merge_child_report(report, &doc, "debug:"),
        ChildOutcome::Crashed { signal, code, stack_overflow, stderr_tail } => report.violate(
            format!("{}:debug:crash", base.case.signature()),
            format!("{} [dev profile]: the process died (signal {:?}, code {:?}, stack overflow {}): {}", base.case.label, signal, code, stack_overflow, stderr_tail),
            case,
        ),
        ChildOutcome::Timeout { after_s } => report.inconclusive(format!("dev-profile pass timed out after {:.0}s", after_s)),
        ChildOutcome::SpawnFailed(e) => report.inconclusive(format!("dev-profile pass: {}", e)),
    }
}

pub fn replay(case: &Json) -> Report {
    let mut report = Report::new();
    let c = match EnumCase::from_json(case) {
        Some(c) => c,
        None => {
            report.inconclusive("replay case is not an enumeration case");
            return report;
        }
    };
    let base = match baseline(&c, &mut report) {
        Some(b) => b,
        None => return report,
    };
    let mut scopes: Vec<Scope> = Vec::new();
    if let Some(list) = case.get("scopes").and_then(|s| s.as_arr()) {
        for s in list {
            if let Some(a) = s.as_arr() {
                let n: Vec<u8> = a.iter().filter_map(|x| x.as_i128()).map(|x| x as u8).collect();
                if n.len() == 4 {
                    scopes.push(((n[0], n[1]), (n[2], n[3])));
                }
            }
        }
    }
    for (from, to) in scopes {
        if linear(from) <= linear(to) {
            check_scope(&base, from, to, &mut report);
        }
    }
    report
}
