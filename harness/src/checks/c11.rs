//! C11 — equities are invariant under suit relabelling and follow player reordering.

use super::enumcase::EnumCase;
use crate::conv::{pid, Combos};
use crate::core::{Ctx, Report, Tier};
use crate::drive;
use crate::json::Json;
use crate::util::{catch, mix2, nth_permutation, par_run_map, Rng};
use crate::workload::{notation_range, random_range, textured_flop, WeightMode};
use espada::verif_hooks::{self, Event};
use std::cell::Cell;
use std::rc::Rc;

/// tallies[player][k] = showdowns this player wins k-way (k = 1 outright)
pub type Tallies = Vec<Vec<u64>>;

#[derive(Clone, Debug)]
pub struct Transform {
    pub suits: [u8; 4],
    /// new player i is old player order[i]
    pub order: Vec<usize>,
}

impl Transform {
    fn label(&self) -> String {
        format!("suits={:?} players={:?}", self.suits, self.order)
    }

    fn apply(&self, case: &EnumCase) -> EnumCase {
        let map = |c: u8| (c / 4) * 4 + self.suits[(c % 4) as usize];
        let flop = [map(case.flop[0]), map(case.flop[1]), map(case.flop[2])];
        if let Some(texts) = &case.notation {
            // relabel the suit letters of single-combo tokens; rank-pair tokens name all suits alike
            let relabel = |text: &str| -> String {
                text.split(',')
                    .map(|tok| {
                        let (body, weight) = match tok.split_once(':') {
                            Some((b, w)) => (b, Some(w)),
                            None => (tok, None),
                        };
                        let chars: Vec<char> = body.chars().collect();
                        let is_combo = chars.len() == 4 && crate::conv::SUIT_CHARS.contains(&chars[1]) && crate::conv::SUIT_CHARS.contains(&chars[3]);
                        let new_body: String = if is_combo {
                            chars
                                .iter()
                                .enumerate()
                                .map(|(i, c)| {
                                    if i % 2 == 1 {
                                        let si = crate::conv::SUIT_CHARS.iter().position(|x| x == c).unwrap();
                                        crate::conv::SUIT_CHARS[self.suits[si] as usize]
                                    } else {
                                        *c
                                    }
                                })
                                .collect()
                        } else {
                            body.to_string()
                        };
                        match weight {
                            Some(w) => format!("{}:{}", new_body, w),
                            None => new_body,
                        }
                    })
                    .collect::<Vec<_>>()
                    .join(",")
            };
            let texts: Vec<String> = self.order.iter().map(|old| relabel(&texts[*old])).collect();
            let refs: Vec<&str> = texts.iter().map(|s| s.as_str()).collect();
            return EnumCase::parsed(&case.label, flop, &refs);
        }
        let ranges: Vec<Combos> = self
            .order
            .iter()
            .map(|old| case.ranges[*old].iter().map(|(p, w)| (pid(map(p.0), map(p.1)), *w)).collect())
            .collect();
        EnumCase::collect(&case.label, flop, ranges)
    }
}

pub struct RunStats {
    pub tallies: Tallies,
    pub showdowns: u64,
    pub flush_lookups: u64,
    pub share_defects: u64,
}

/// The README loop over the real evaluator, in integers.
pub fn tally(case: &EnumCase) -> Result<RunStats, String> {
    let (ranges, cfg) = case.build()?;
    drive::reset_budget();
    let n = cfg.ranges.len();
    let flush = Rc::new(Cell::new(0u64));
    let f = flush.clone();
    verif_hooks::set_sink(Some(Box::new(move |e: &Event| {
        match e {
            Event::TableLookup { flush: true, .. } => f.set(f.get() + 1),
            Event::Deal { turn_index, river_index, player_indexes, .. } => drive::guard_tick(*turn_index, *river_index, player_indexes),
            _ => {}
        }
    })));
    let r = catch(|| {
        let mut t: Tallies = vec![vec![0; n + 1]; n];
        let mut showdowns = 0u64;
        let mut share_defects = 0u64;
        for sd in drive::evaluator(&cfg, &ranges, None) {
            showdowns += 1;
            let wl = sd.winner_len() as usize;
            let mut flagged = 0usize;
            for (i, p) in sd.players().iter().enumerate() {
                if p.is_winner() {
                    flagged += 1;
                    if wl >= 1 && wl <= n {
                        t[i][wl] += 1;
                    }
                }
            }
            // shares of 1/winner_len add up to one pot iff flagged == winner_len >= 1
            if flagged != wl || wl == 0 {
                share_defects += 1;
            }
        }
        (t, showdowns, share_defects)
    });
    verif_hooks::set_sink(None);
    let (tallies, showdowns, share_defects) = r.map_err(|p| format!("panic: {}", p))?;
    Ok(RunStats { tallies, showdowns, flush_lookups: flush.get(), share_defects })
}

/// The same loop for two configurations whose iterators are advanced alternately on this thread
/// (a position and its relabelled image evaluated side by side). Returns the second one's statistics.
pub fn tally_lockstep(a: &EnumCase, b: &EnumCase) -> Result<RunStats, String> {
    let (ra, ca) = a.build()?;
    let (rb, cb) = b.build()?;
    let n = cb.ranges.len();
    let r = catch(|| {
        // two live evaluators on one thread: tell the non-termination guard which one is stepped
        drive::stepping(1);
        let mut ia = drive::evaluator(&ca, &ra, None).into_iter();
        drive::stepping(2);
        let mut ib = drive::evaluator(&cb, &rb, None).into_iter();
        let mut t: Tallies = vec![vec![0; n + 1]; n];
        let (mut showdowns, mut share_defects) = (0u64, 0u64);
        let (mut a_done, mut b_done) = (false, false);
        while !a_done || !b_done {
            drive::stepping(1);
            if !a_done && ia.next().is_none() {
                a_done = true;
            }
            drive::stepping(2);
            if !b_done {
                match ib.next() {
                    None => b_done = true,
                    Some(sd) => {
                        showdowns += 1;
                        let wl = sd.winner_len() as usize;
                        let mut flagged = 0usize;
                        for (i, p) in sd.players().iter().enumerate() {
                            if p.is_winner() {
                                flagged += 1;
                                if wl >= 1 && wl <= n {
                                    t[i][wl] += 1;
                                }
                            }
                        }
                        if flagged != wl || wl == 0 {
                            share_defects += 1;
                        }
                    }
                }
            }
        }
        (t, showdowns, share_defects)
    });
    drive::stepping(0);
    let (tallies, showdowns, share_defects) = r.map_err(|p| format!("panic: {}", p))?;
    Ok(RunStats { tallies, showdowns, flush_lookups: 0, share_defects })
}

fn configs(tier: Tier, seed: u64) -> Vec<EnumCase> {
    let mut v = Vec::new();
    let mut rng = Rng::derive(seed, "c11-configs", 0);
    let budget: u128 = tier.pick(1500, 8000); // product of range sizes
    let want = tier.pick(14, 40);
    let mut attempts = 0;
    while v.len() < want && attempts < 5000 {
        attempts += 1;
        let players = 2 + rng.usize_below(3);
        let mut ranges: Vec<Combos> = Vec::new();
        for _ in 0..players {
            let r = if rng.chance(3, 4) {
                let n_tokens = 1 + rng.usize_below(3);
                let (_, mut c) = notation_range(&mut rng, n_tokens, WeightMode::Family);
                // a few suit-specific single combos so that relabelling really moves the range
                let n_extra = 1 + rng.usize_below(3);
                let extra = random_range(&mut rng, n_extra, WeightMode::Family);
                for e in extra {
                    if !c.iter().any(|(p, _)| *p == e.0) {
                        c.push(e);
                    }
                }
                c
            } else {
                let size = 4 + rng.usize_below(20);
                random_range(&mut rng, size, WeightMode::Family)
            };
            ranges.push(r);
        }
        let product: u128 = ranges.iter().map(|r| r.len() as u128).product();
        if product == 0 || product > budget || ranges.iter().any(|r| r.len() < 2 || r.len() > 60) {
            continue;
        }
        let flop = textured_flop(&mut rng, v.len());
        v.push(EnumCase::collect(&format!("cfg-{}", v.len()), flop, ranges));
    }
    // a full table and beyond: 17..20 seats, one or two hands each, hole cards drawn from few ranks so that
    // ties across many seats occur
    for seats in [17usize, 20] {
        let flop = textured_flop(&mut rng, seats);
        let mut live: Vec<u8> = (0..52u8).filter(|c| !flop.contains(c)).collect();
        rng.shuffle(&mut live);
        let mut ranges: Vec<Combos> = (0..seats).map(|i| vec![(pid(live[2 * i], live[2 * i + 1]), 1.0f32)]).collect();
        // two seats get a second hand made of still unused cards
        let spare = &live[2 * seats..];
        if spare.len() >= 4 {
            ranges[0].push((pid(spare[0], spare[1]), 0.5));
            ranges[seats - 1].push((pid(spare[2], spare[3]), 0.25));
        }
        v.push(EnumCase::collect(&format!("seats-{}", seats), flop, ranges));
    }
    // a seat without any hand (collected, and parsed from tokens that are not tokens): nobody is dealt in, whatever the order
    {
        let flop = textured_flop(&mut rng, 3);
        let a = random_range(&mut rng, 6, WeightMode::Family);
        let b = random_range(&mut rng, 9, WeightMode::Family);
        v.push(EnumCase::collect("empty-seat", flop, vec![a, vec![], b]));
    }
    // ranges written as notation, naming some combos in both card orders and on top of rank-pair tokens
    let f = |t: &str| {
        let c = crate::conv::parse_cards_text(t).unwrap();
        [c[0], c[1], c[2]]
    };
    v.push(EnumCase::parsed("notation-both-orders-1", f("Qs8d2h"), &["KK+,AhAs:0.5", "QJs,Td9d,9dTd:0.25"]));
    v.push(EnumCase::parsed("notation-both-orders-2", f("7c4d2h"), &["AsKs,KsAs:0.5,77", "7h7d,8c8s,8s8c:0.75,T9s"]));
    v.push(EnumCase::parsed("notation-unparsable-seat", f("Ts6d2h"), &["QQ,JTs", "KAs+,xx", "A5s,99"]));
    v
}

fn transforms(n_players: usize, rng: &mut Rng, tier: Tier) -> Vec<Transform> {
    let suits: Vec<[u8; 4]> = (0..24).map(|i| {
        let p = nth_permutation(&[0u8, 1, 2, 3], i);
        [p[0], p[1], p[2], p[3]]
    }).collect();
    let ident: Vec<usize> = (0..n_players).collect();
    let orders: Vec<Vec<usize>> = if n_players <= 4 {
        let n_perm: u64 = (1..=n_players as u64).product();
        (0..n_perm).map(|i| nth_permutation(&ident, i)).collect()
    } else {
        // too many orders to list: the identity, the reversal, a rotation and seeded shuffles
        let mut v = vec![ident.clone(), ident.iter().rev().cloned().collect()];
        let mut rot = ident.clone();
        rot.rotate_left(n_players / 2);
        v.push(rot);
        for _ in 0..9 {
            let mut o = ident.clone();
            rng.shuffle(&mut o);
            v.push(o);
        }
        v
    };
    let mut v = Vec::new();
    // all 24 relabellings with the players in place
    for s in suits.iter().skip(1) {
        v.push(Transform { suits: *s, order: ident.clone() });
    }
    // all player orders with the suits in place
    for o in orders.iter().skip(1) {
        v.push(Transform { suits: suits[0], order: o.clone() });
    }
    // combined
    for _ in 0..tier.pick(4, 16) {
        v.push(Transform { suits: suits[rng.usize_below(24)], order: orders[rng.usize_below(orders.len())].clone() });
    }
    v
}

struct Unit {
    cfg: usize,
    transform: Option<Transform>,
    /// evaluate the transformed configuration side by side with the untransformed one
    lockstep: bool,
}

pub fn run(ctx: &Ctx) -> Report {
    let mut report = Report::new();
    let cfgs = configs(ctx.tier, ctx.seed);
    let mut rng = Rng::derive(ctx.seed, "c11-transforms", 0);
    let mut units: Vec<Unit> = Vec::new();
    for (i, c) in cfgs.iter().enumerate() {
        units.push(Unit { cfg: i, transform: None, lockstep: false });
        let ts = transforms(c.players(), &mut rng, ctx.tier);
        for (k, t) in ts.iter().enumerate() {
            units.push(Unit { cfg: i, transform: Some(t.clone()), lockstep: false });
            if k % 11 == 3 {
                units.push(Unit { cfg: i, transform: Some(t.clone()), lockstep: true });
            }
        }
    }
    let outcomes: Vec<Vec<(usize, Result<RunStats, String>)>> = par_run_map(
        units.len(),
        1,
        |_| Vec::new(),
        |acc: &mut Vec<(usize, Result<RunStats, String>)>, u| {
            let unit = &units[u];
            let case = match &unit.transform {
                None => cfgs[unit.cfg].clone(),
                Some(t) => t.apply(&cfgs[unit.cfg]),
            };
            if unit.lockstep {
                acc.push((u, tally_lockstep(&cfgs[unit.cfg], &case)));
            } else {
                acc.push((u, tally(&case)));
            }
        },
        |acc| acc,
    );
    let mut by_unit: Vec<Option<Result<RunStats, String>>> = (0..units.len()).map(|_| None).collect();
    for list in outcomes {
        for (u, r) in list {
            by_unit[u] = Some(r);
        }
    }
    // base tallies per configuration
    let mut base: Vec<Option<&RunStats>> = vec![None; cfgs.len()];
    for (u, unit) in units.iter().enumerate() {
        if unit.transform.is_none() {
            if let Some(Ok(s)) = &by_unit[u] {
                base[unit.cfg] = Some(s);
            }
        }
    }
    let mut tie_hist = vec![0u64; 8];
    for (u, unit) in units.iter().enumerate() {
        let case = &cfgs[unit.cfg];
        report.evaluations += 1;
        let stats = match &by_unit[u] {
            Some(Ok(s)) => s,
            Some(Err(e)) if e.contains(drive::BOUND_PANIC) => {
                // the harness's own non-termination guard: no tally exists to compare (C02/C08's subject)
                report.inconclusive(format!("{}: {}", case.label, e));
                continue;
            }
            Some(Err(e)) => {
                report.violate(format!("{}:run-failed", case.signature()), format!("{} under {}: {}", case.label, unit.transform.as_ref().map(|t| t.label()).unwrap_or_else(|| "identity".into()), e), case_json(case, unit.transform.as_ref()));
                continue;
            }
            None => continue,
        };
        report.count("showdowns", stats.showdowns);
        report.count("flush_table_lookups_seen", stats.flush_lookups);
        if stats.share_defects > 0 {
            report.violate(format!("{}:shares", case.signature()), format!("{}: in {} showdowns the number of flagged winners differs from winner_len() or is 0, so the shares of 1/winner_len do not add up to one pot", case.label, stats.share_defects), case_json(case, unit.transform.as_ref()));
        }
        let b = match base[unit.cfg] {
            Some(b) => b,
            None => continue,
        };
        match &unit.transform {
            None => {
                for row in &stats.tallies {
                    for (k, c) in row.iter().enumerate() {
                        if k < tie_hist.len() {
                            tie_hist[k] += c;
                        }
                    }
                }
                if stats.showdowns > 0 {
                    report.note_distinct(case.hash());
                }
            }
            Some(t) => {
                report.count("transformed_runs_compared", 1);
                if unit.lockstep {
                    report.count("of_which_evaluated_in_lockstep_with_the_original", 1);
                }
                report.note_distinct(mix2(case.hash(), crate::util::hash_str(&t.label())));
                let expected: Tallies = t.order.iter().map(|old| b.tallies[*old].clone()).collect();
                if stats.tallies != expected || stats.showdowns != b.showdowns {
                    report.violate(
                        format!("{}:{}{}", case.signature(), t.label().replace(' ', ""), if unit.lockstep { ":lockstep" } else { "" }),
                        format!(
                            "{}: tallies change under {}: {:?} ({} showdowns) instead of {:?} ({} showdowns); {}",
                            case.label, t.label(), stats.tallies, stats.showdowns, expected, b.showdowns, case.summary().to_string_compact()
                        ),
                        case_json(case, Some(t)),
                    );
                }
            }
        }
    }
    for (i, c) in cfgs.iter().enumerate().take(3) {
        if let Some(b) = base[i] {
            report.sample(c.summary().set("showdowns", Json::Int(b.showdowns as i128)).set("tallies_player_by_k", Json::arr(b.tallies.iter().map(|r| Json::arr(r.iter().skip(1).map(|c| Json::Int(*c as i128)))))));
        }
    }
    report.set("configurations", Json::Int(cfgs.len() as i128));
    report.set("winner_len_histogram_base_runs", Json::arr(tie_hist.iter().skip(1).map(|c| Json::Int(*c as i128))));
    report.rule = "one execution = one complete README-style equity loop over the real evaluator for (configuration, suit permutation, player order); integer tallies of k-way wins per player are compared with the untransformed run (permuted by the player order); every showdown is also checked for flagged winners == winner_len() >= 1; distinct = distinct (configuration, transformation) pairs".into();
    report.assumptions.push("all 24 suit permutations and all player orders are applied separately, plus seeded combinations; configurations (2-4 players, 2-60 combos each, suit-specific combos included) are sampled".into());
    report
}

fn case_json(case: &EnumCase, t: Option<&Transform>) -> Json {
    let mut j = case.to_json();
    j.put("kind", Json::str("equity"));
    if let Some(t) = t {
        j.put("suits", Json::arr(t.suits.iter().map(|s| Json::Int(*s as i128))));
        j.put("order", Json::arr(t.order.iter().map(|s| Json::Int(*s as i128))));
    }
    j
}

pub fn replay(case: &Json) -> Report {
    let mut report = Report::new();
    let c = match EnumCase::from_json(case) {
        Some(c) => c,
        None => {
            report.inconclusive("replay case is not an enumeration case");
            return report;
        }
    };
    let ints = |key: &str| -> Option<Vec<usize>> { case.get(key)?.as_arr().map(|a| a.iter().filter_map(|x| x.as_i128()).map(|x| x as usize).collect()) };
    let t = match (ints("suits"), ints("order")) {
        (Some(s), Some(o)) if s.len() == 4 && o.len() == c.players() => Transform { suits: [s[0] as u8, s[1] as u8, s[2] as u8, s[3] as u8], order: o },
        _ => Transform { suits: [1, 0, 3, 2], order: (0..c.players()).rev().collect() },
    };
    report.evaluations = 2;
    match (tally(&c), tally(&t.apply(&c))) {
        (Ok(b), Ok(s)) => {
            let expected: Tallies = t.order.iter().map(|old| b.tallies[*old].clone()).collect();
            if s.tallies != expected || s.showdowns != b.showdowns {
                report.violate(format!("{}:{}", c.signature(), t.label().replace(' ', "")), format!("tallies change under {}: {:?} instead of {:?}", t.label(), s.tallies, expected), case.clone());
            }
            if b.share_defects + s.share_defects > 0 {
                report.violate(format!("{}:shares", c.signature()), "flagged winners differ from winner_len()".to_string(), case.clone());
            }
        }
        (a, b) => {
            let text = format!("{:?} / {:?}", a.err(), b.err());
            if text.contains(drive::BOUND_PANIC) {
                report.inconclusive(text);
            } else {
                report.violate(format!("{}:run-failed", c.signature()), text, case.clone());
            }
        }
    }
    report
}
