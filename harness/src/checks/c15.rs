//! C15 — evaluator instances are independent under any interleaving or thread schedule.
//! (i) seeded interleavings of next() calls on one thread, in process;
//! (ii) the threaded workload binary `verif_threads` (needs Send + Sync), natively;
//! (iii) the same binary under Miri (UB + data-race interpreter) and, thorough, ThreadSanitizer;
//! (iv) the `Send + Sync` probe, settled by the type checker;
//! (v) a few evaluators run alone in fresh processes, and after other evaluators, against this process.

use super::enumcase::EnumCase;
use crate::child::{self, run_cmd, ChildOutcome, CmdResult};
use crate::conv::Combos;
use crate::core::{Ctx, Report, Tier};
use crate::drive::{self, trace_key, Scope, TraceKey};
use crate::json::Json;
use crate::refmodel::scope::{from_linear, POSITIONS};
use crate::util::{catch, mix2, par_run, Rng};
use crate::workload::{clustered_range, textured_flop, WeightMode};
use espada::hand_range::HandRange;
use std::path::PathBuf;
use std::time::Duration;

struct Unit {
    case: EnumCase,
    ranges: Vec<HandRange>,
    cfg: crate::refmodel::enumerate::Config,
    scope: Scope,
}

fn make_units(rng: &mut Rng, k: usize) -> Vec<Unit> {
    let mut v: Vec<Unit> = Vec::new();
    for i in 0..k {
        // some evaluators are identical twins of an earlier one
        if i > 0 && rng.chance(1, 4) {
            let j = rng.usize_below(i);
            let ranges = if rng.chance(1, 2) {
                v[j].ranges.clone()
            } else {
                // equal ranges (==) built in another insertion order: a different listing order of the same combos
                v[j].case
                    .ranges
                    .iter()
                    .map(|r| {
                        let mut items = r.clone();
                        rng.shuffle(&mut items);
                        // extra capacity history: insert and overwrite
                        let mut doubled = items.clone();
                        doubled.extend(items.iter().cloned());
                        crate::conv::to_hand_range(&doubled)
                    })
                    .collect()
            };
            let scope = if rng.chance(3, 4) { v[j].scope } else { ((0, 1), (3, 4)) };
            let u = Unit { case: v[j].case.clone(), ranges, cfg: v[j].cfg.clone(), scope };
            v.push(u);
            continue;
        }
        // ... and some are siblings: the very same ranges and scope on another flop (the same hole cards meet the
        // same turn and river on different boards)
        if i > 0 && rng.chance(1, 5) {
            let j = rng.usize_below(i);
            let mut flop = textured_flop(rng, i);
            // keep the flop off the ranges' cards so that the sibling deals something
            for _ in 0..20 {
                if v[j].case.ranges.iter().flatten().all(|(p, _)| !flop.contains(&p.0) && !flop.contains(&p.1)) {
                    break;
                }
                flop = textured_flop(rng, i + 1);
            }
            let case = EnumCase::collect(&format!("ev{}", i), flop, v[j].case.ranges.clone());
            let cfg = crate::refmodel::enumerate::Config { flop, ranges: v[j].cfg.ranges.clone() };
            let u = Unit { case, ranges: v[j].ranges.clone(), cfg, scope: v[j].scope };
            v.push(u);
            continue;
        }
        let flop = textured_flop(rng, i);
        let cards: Vec<u8> = rng.sample(52, 12).into_iter().map(|c| c as u8).collect();
        let players = 1 + rng.usize_below(3);
        let ranges: Vec<Combos> = (0..players)
            .map(|_| {
                let size = 1 + rng.usize_below(5);
                clustered_range(rng, &cards, size, WeightMode::Family)
            })
            .collect();
        let case = EnumCase::collect(&format!("ev{}", i), flop, ranges);
        let (ranges, cfg) = case.build().expect("collect case builds");
        let a = rng.usize_below(POSITIONS - 30);
        let b = a + 1 + rng.usize_below(30);
        v.push(Unit { case, ranges, cfg, scope: (from_linear(a), from_linear(b)) });
    }
    v
}

fn schedule_name(kind: u64) -> &'static str {
    match kind {
        0 => "round-robin",
        1 => "bursts",
        2 => "random",
        3 => "one-starved",
        4 => "random-with-foreign-calls",
        _ => "reused-storage",
    }
}

/// One schedule: K live evaluators stepped call by call on this thread.
fn run_schedule(seed: u64, index: u64, report: &mut Report) {
    let mut rng = Rng::derive(seed, "c15-schedule", index);
    let k = 2 + rng.usize_below(11);
    let units = make_units(&mut rng, k);
    let kind = rng.below(6);
    drive::stepping(0);
    drive::reset_budget();
    report.evaluations += 1;
    report.count(&format!("schedules_{}", schedule_name(kind)), 1);
    if kind == 5 {
        run_reused_storage(seed, index, &mut rng, report);
        return;
    }
    // solo sequences first (label 0 of the non-termination guard; the live evaluators below are labelled 1..=k)
    let solos: Vec<Result<Vec<TraceKey>, String>> = units
        .iter()
        .map(|u| catch(|| drive::evaluator(&u.cfg, &u.ranges, Some(u.scope)).into_iter().map(|sd| trace_key(&sd)).collect()))
        .collect();
    if let Some(Err(p)) = solos.iter().find(|s| matches!(s, Err(p) if p.contains(drive::BOUND_PANIC))) {
        // the harness's own non-termination guard fired on an evaluator iterated ALONE: the enumeration itself does
        // not end (C02/C08's subject), so there is no solo sequence to compare an interleaved one with
        if report.inconclusive.len() < 3 {
            report.inconclusive(format!("schedule {}: a solo run does not end: {}", index, p));
        }
        return;
    }
    let mut schedule_hash = 0u64;
    let mut abandoned = 0u64;
    let result = catch(|| {
        // iterators that are started and dropped midway before the real ones are built
        if rng.chance(1, 2) {
            for _ in 0..1 + rng.usize_below(3) {
                let u = &units[rng.usize_below(k)];
                let mut it = drive::evaluator(&u.cfg, &u.ranges, Some(u.scope)).into_iter();
                for _ in 0..1 + rng.usize_below(40) {
                    if it.next().is_none() {
                        break;
                    }
                }
                abandoned += 1;
            }
        }
        let mut its: Vec<_> = units
            .iter()
            .enumerate()
            .map(|(e, u)| {
                drive::stepping(e + 1);
                drive::evaluator(&u.cfg, &u.ranges, Some(u.scope)).into_iter()
            })
            .collect();
        let mut seqs: Vec<Vec<TraceKey>> = vec![Vec::new(); k];
        let mut live: Vec<usize> = (0..k).collect();
        let starved = rng.usize_below(k);
        let mut cursor = 0usize;
        let mut steps = 0u64;
        let mut restarts = 0u32;
        while !live.is_empty() {
            let (pick, burst) = match kind {
                0 => {
                    cursor = (cursor + 1) % live.len();
                    (cursor, 1)
                }
                1 => (rng.usize_below(live.len()), 1 + rng.usize_below(40)),
                3 => {
                    // the starved evaluator only moves when it is alone or rarely
                    let mut p = rng.usize_below(live.len());
                    if live[p] == starved && live.len() > 1 && !rng.chance(1, 50) {
                        p = (p + 1) % live.len();
                    }
                    (p, 1)
                }
                _ => (rng.usize_below(live.len()), 1),
            };
            let e = live[pick];
            let mut done = false;
            if (kind == 2 || kind == 4) && restarts < 2 && rng.chance(1, 150) {
                restarts += 1;
                // give up on this evaluator midway and start it again from scratch
                drive::stepping(e + 1);
                its[e] = drive::evaluator(&units[e].cfg, &units[e].ranges, Some(units[e].scope)).into_iter();
                seqs[e].clear();
                abandoned += 1;
            }
            for _ in 0..burst {
                steps += 1;
                schedule_hash = mix2(schedule_hash, e as u64);
                drive::stepping(e + 1);
                match its[e].next() {
                    Some(sd) => seqs[e].push(trace_key(&sd)),
                    None => {
                        done = true;
                        break;
                    }
                }
                if kind == 4 && rng.chance(1, 8) {
                    // unrelated library calls in between: a new evaluator stepped once, a range formatted
                    let other = &units[rng.usize_below(k)];
                    drive::stepping(0);
                    let mut fresh = drive::evaluator(&other.cfg, &other.ranges, None).into_iter();
                    let _ = fresh.next();
                    let _ = other.ranges[0].to_string();
                    let _ = other.ranges[0].rank_pairs();
                }
            }
            if done {
                // exhausted evaluators stay exhausted even while others run
                live.remove(pick);
                if cursor >= live.len() {
                    cursor = 0;
                }
            }
        }
        (seqs, steps)
    });
    drive::stepping(0);
    let case = || {
        Json::obj()
            .set("kind", Json::str("schedule"))
            .set("seed", Json::Int(seed as i128))
            .set("index", Json::Int(index as i128))
    };
    match result {
        Err(p) => report.violate(format!("schedule:{}:{}:panic", seed, index), format!("interleaving {} evaluators ({}) panicked: {}", k, schedule_name(kind), p), case()),
        Ok((seqs, steps)) => {
            report.count("iterators_abandoned_midway", abandoned);
            report.count("next_calls_interleaved", steps);
            report.note_distinct(schedule_hash);
            for (e, seq) in seqs.iter().enumerate() {
                report.count("sequences_compared", 1);
                match &solos[e] {
                    Ok(solo) => {
                        report.count("showdowns_compared", solo.len() as u64);
                        if seq != solo {
                            let at = seq.iter().zip(solo.iter()).position(|(a, b)| a != b).unwrap_or(seq.len().min(solo.len()));
                            report.violate(
                                format!("schedule:{}:{}:ev{}", seed, index, e),
                                format!(
                                    "evaluator {} of {} ({} schedule) yields {} showdowns when interleaved, {} alone; first difference at showdown {} ({}, scope {:?})",
                                    e, k, schedule_name(kind), seq.len(), solo.len(), at, super::c02::cfg_short(&units[e].cfg), units[e].scope
                                ),
                                case(),
                            );
                        }
                    }
                    Err(p) => report.violate(format!("schedule:{}:{}:solo-panic", seed, index), format!("solo run panicked: {}", p), case()),
                }
            }
        }
    }
}

/// Evaluators built one after the other from ONE board and ONE `Vec<HandRange>` whose elements
/// are overwritten in place between constructions (same address, same length, new contents), or
/// dropped and re-allocated. Each evaluator must follow the contents it was built from: the
/// sequence depends only on its own flop, ranges and scope, not on where its inputs lived.
fn run_reused_storage(seed: u64, index: u64, rng: &mut Rng, report: &mut Report) {
    let k = 2 + rng.usize_below(5);
    let flop = textured_flop(rng, index as usize);
    let board = drive::board_of(&flop);
    let n_players = 1 + rng.usize_below(3);
    let cards: Vec<u8> = rng.sample(52, 14).into_iter().map(|c| c as u8).collect();
    let fresh_range = |rng: &mut Rng| -> HandRange {
        let size = 1 + rng.usize_below(5);
        crate::conv::to_hand_range(&clustered_range(rng, &cards, size, WeightMode::Family))
    };
    let mut players: Vec<HandRange> = (0..n_players).map(|_| fresh_range(rng)).collect();
    let case = || Json::obj().set("kind", Json::str("schedule")).set("seed", Json::Int(seed as i128)).set("index", Json::Int(index as i128));
    let result = catch(|| {
        let mut snapshots: Vec<(Vec<HandRange>, Scope)> = Vec::new();
        let mut pending: Vec<Option<espada::evaluator::FlopExhaustiveEvaluator>> = Vec::new();
        let mut its: Vec<Option<<espada::evaluator::FlopExhaustiveEvaluator as IntoIterator>::IntoIter>> = Vec::new();
        for i in 0..k {
            if i > 0 {
                match rng.below(3) {
                    0 => {
                        // overwrite every element in place
                        for p in players.iter_mut() {
                            *p = fresh_range(rng);
                        }
                    }
                    1 => {
                        // overwrite one element in place
                        let j = rng.usize_below(n_players);
                        players[j] = fresh_range(rng);
                    }
                    _ => {
                        // drop the vector and allocate a new one of the same shape
                        players = (0..n_players).map(|_| fresh_range(rng)).collect();
                    }
                }
            }
            let a = rng.usize_below(POSITIONS - 30);
            let scope: Scope = (from_linear(a), from_linear(a + 1 + rng.usize_below(30)));
            drive::stepping(i + 1);
            drive::allow(&players);
            let mut e = espada::evaluator::FlopExhaustiveEvaluator::new(&board, &players);
            e.scope(scope.0 .0, scope.0 .1, scope.1 .0, scope.1 .1);
            snapshots.push((players.clone(), scope));
            // half of the evaluators are turned into iterators at once, the others after later mutations
            if rng.chance(1, 2) {
                its.push(Some(e.into_iter()));
                pending.push(None);
            } else {
                its.push(None);
                pending.push(Some(e));
            }
        }
        for i in 0..k {
            if let Some(e) = pending[i].take() {
                its[i] = Some(e.into_iter());
            }
        }
        let mut seqs: Vec<Vec<TraceKey>> = vec![Vec::new(); k];
        let mut live: Vec<usize> = (0..k).collect();
        let mut steps = 0u64;
        while !live.is_empty() {
            let pick = rng.usize_below(live.len());
            let e = live[pick];
            steps += 1;
            drive::stepping(e + 1);
            match its[e].as_mut().and_then(|it| it.next()) {
                Some(sd) => seqs[e].push(trace_key(&sd)),
                None => {
                    live.remove(pick);
                }
            }
        }
        // solo runs over deep copies (same iteration order, different storage)
        drive::stepping(0);
        let solos: Vec<Vec<TraceKey>> = snapshots
            .iter()
            .map(|(ranges, scope)| {
                drive::allow(ranges);
                let mut e = espada::evaluator::FlopExhaustiveEvaluator::new(&board, ranges);
                e.scope(scope.0 .0, scope.0 .1, scope.1 .0, scope.1 .1);
                e.into_iter().map(|sd| trace_key(&sd)).collect()
            })
            .collect();
        (seqs, solos, steps)
    });
    drive::stepping(0);
    match result {
        Err(p) if p.contains(drive::BOUND_PANIC) => {
            // the harness's own non-termination guard: in this schedule the solo runs come last, so a run that does
            // not end cannot be told apart from an enumerator that never ends on its own (C02/C08's subject)
            if report.inconclusive.len() < 3 {
                report.inconclusive(format!("schedule {}: evaluators built from reused storage do not end: {}", index, p));
            }
        }
        Err(p) => report.violate(format!("schedule:{}:{}:panic", seed, index), format!("evaluators built from reused storage panicked: {}", p), case()),
        Ok((seqs, solos, steps)) => {
            report.count("next_calls_interleaved", steps);
            report.note_distinct(mix2(0x5705, mix2(seed, index)));
            for e in 0..k {
                report.count("sequences_compared", 1);
                report.count("showdowns_compared", solos[e].len() as u64);
                if seqs[e] != solos[e] {
                    report.violate(
                        format!("schedule:{}:{}:ev{}", seed, index, e),
                        format!(
                            "evaluator {} of {} built from one Vec<HandRange> that was overwritten in place between constructions yields {} showdowns, {} when built from a copy of its own inputs (flop {})",
                            e, k, seqs[e].len(), solos[e].len(), crate::conv::cards_text(&flop)
                        ),
                        case(),
                    );
                }
            }
        }
    }
}

fn harness_dir() -> PathBuf {
    std::env::var("VERIF_HARNESS_DIR").map(PathBuf::from).unwrap_or_else(|_| PathBuf::from("/verif/harness"))
}

fn target_dir() -> PathBuf {
    std::env::var("CARGO_TARGET_DIR").map(PathBuf::from).unwrap_or_else(|_| harness_dir().join("target"))
}

fn cargo_config_args() -> Vec<String> {
    match std::env::var("VERIF_REPO") {
        Ok(r) if r != "/repo" => vec!["--config".to_string(), format!("paths=[\"{}\"]", r)],
        _ => vec![],
    }
}

fn cargo(args: &[&str], envs: &[(&str, String)], timeout_s: u64) -> Result<CmdResult, String> {
    let mut all: Vec<String> = Vec::new();
    let mut it = args.iter();
    // keep a leading +toolchain first, then the subcommand, then --offline and the config override
    let mut head: Vec<String> = Vec::new();
    while let Some(a) = it.next() {
        head.push(a.to_string());
        if !a.starts_with('+') {
            break;
        }
    }
    all.extend(head);
    let rest: Vec<String> = it.map(|s| s.to_string()).collect();
    all.extend(rest);
    all.extend(cargo_config_args());
    let mut env: Vec<(String, String)> = envs.iter().map(|(k, v)| (k.to_string(), v.clone())).collect();
    env.push(("CARGO_NET_OFFLINE".into(), "true".into()));
    env.push(("CARGO_TERM_COLOR".into(), "never".into()));
    run_cmd("cargo", &all, &env, Some(&harness_dir()), Duration::from_secs(timeout_s))
}

fn tail(s: &str, n: usize) -> String {
    let lines: Vec<&str> = s.lines().collect();
    lines[lines.len().saturating_sub(n)..].join(" | ").chars().take(900).collect()
}

fn threads_report(stdout: &str) -> Vec<Json> {
    stdout.lines().filter_map(|l| l.strip_prefix("THREADS-REPORT ")).filter_map(|d| Json::parse(d).ok()).collect()
}

/// (iv) the Send + Sync probe. Returns false when the types are not Send + Sync.
fn sendsync(report: &mut Report) -> bool {
    report.evaluations += 1;
    match cargo(&["build", "--offline", "--release", "--bin", "sendsync_probe"], &[], 900) {
        Ok(r) if r.code == Some(0) => {
            report.set("send_sync_probe", Json::str("compiles: FlopExhaustiveEvaluator, its iterator, HandRange, Showdown, CardPair, MadeHand, HandRangeToken, RankPair, Card, Rank, Suit are Send + Sync"));
            true
        }
        Ok(r) if r.stderr.contains("E0277") && (r.stderr.contains("`Send`") || r.stderr.contains("`Sync`") || r.stderr.contains("cannot be sent between threads") || r.stderr.contains("cannot be shared between threads")) => {
            let line = r.stderr.lines().find(|l| l.contains("E0277")).unwrap_or("E0277").to_string();
            report.violate("send-sync-probe".to_string(), format!("a public type is no longer Send + Sync: {} [{}]", line, tail(&r.stderr, 12)), Json::obj().set("kind", Json::str("sendsync")));
            false
        }
        Ok(r) => {
            report.inconclusive(format!("the Send+Sync probe failed to build for another reason (code {:?}, timed out {}): {}", r.code, r.timed_out, tail(&r.stderr, 8)));
            true
        }
        Err(e) => {
            report.inconclusive(format!("cannot run cargo for the Send+Sync probe: {}", e));
            true
        }
    }
}

/// An optional engine (Miri, ThreadSanitizer) that could not run gives no verdict of its own:
/// it is listed in the evidence and on stdout, and the check's verdict rests on the other engines.
fn engine_skipped(report: &mut Report, engine: &str, reason: String) {
    println!("ENGINE-SKIPPED property=C15 engine={} reason={}", engine, reason);
    let mut list: Vec<Json> = report.extra.get("engines_skipped").and_then(|v| v.as_arr()).cloned().unwrap_or_default();
    list.push(Json::str(format!("{}: {}", engine, reason)));
    report.set("engines_skipped", Json::Arr(list));
}

fn merge_threads_doc(report: &mut Report, doc: &Json, engine: &str) {
    if let Some(p) = doc.get("solo_run_does_not_end").and_then(|v| v.as_str()) {
        report.inconclusive(format!("[{}] an evaluator iterated alone does not end, so there is no solo sequence to compare the threaded runs with: {}", engine, p));
        return;
    }
    let get = |k: &str| doc.get(k).and_then(|v| v.as_i128()).unwrap_or(0) as u64;
    report.count(&format!("{}_threads", engine), get("threads"));
    report.count(&format!("{}_sequences_compared", engine), get("sequences_compared"));
    report.count(&format!("{}_showdowns", engine), get("showdowns"));
    report.count(&format!("{}_distinct_interleavings", engine), get("distinct_interleavings"));
    report.count(&format!("{}_iterator_handoffs", engine), get("iterator_handoffs"));
    report.count(&format!("{}_cross_thread_reads", engine), get("cross_thread_reads"));
    report.evaluations += get("sequences_compared");
    if get("mismatch_count") > 0 {
        let first = doc.get("mismatches").and_then(|m| m.as_arr()).and_then(|a| a.first()).and_then(|s| s.as_str()).unwrap_or("?").to_string();
        report.violate(format!("threads:{}:mismatch", engine), format!("[{}] {} sequences differ from the solo run: {}", engine, get("mismatch_count"), first), Json::obj().set("kind", Json::str("threads")).set("engine", Json::str(engine)));
    }
}

/// (ii) native threaded workload.
fn native_threads(ctx: &Ctx, report: &mut Report) {
    match cargo(&["build", "--offline", "--release", "--bin", "verif_threads"], &[], 900) {
        Ok(r) if r.code == Some(0) => {}
        Ok(r) => {
            report.inconclusive(format!("verif_threads failed to build (code {:?}): {}", r.code, tail(&r.stderr, 8)));
            return;
        }
        Err(e) => {
            report.inconclusive(format!("cannot run cargo: {}", e));
            return;
        }
    }
    let exe = target_dir().join("release").join("verif_threads");
    let reps = ctx.tier.pick(2, 4);
    for rep in 0..reps {
        let seed = mix2(ctx.seed, rep as u64) % 1_000_000;
        match run_cmd(exe.to_str().unwrap_or(""), &["run".into(), seed.to_string(), ctx.tier.name().into()], &[], None, Duration::from_secs(900)) {
            Ok(r) => {
                let docs = threads_report(&r.stdout);
                if docs.is_empty() {
                    if r.timed_out {
                        report.inconclusive("native threaded workload timed out");
                    } else {
                        report.violate("threads:native:crash".to_string(), format!("the threaded workload died (code {:?}, signal {:?}): {}", r.code, r.signal, tail(&r.stderr, 6)), Json::obj().set("kind", Json::str("threads")).set("engine", Json::str("native")));
                    }
                }
                for d in docs {
                    merge_threads_doc(report, &d, "native");
                }
            }
            Err(e) => report.inconclusive(format!("cannot run verif_threads: {}", e)),
        }
    }
}

/// (iii) Miri over the reduced threaded workload, several scheduler seeds.
fn miri(ctx: &Ctx, report: &mut Report) {
    let seeds = ctx.tier.pick(3, 24);
    let from = (ctx.seed % 1000) * 64;
    let flags = format!("-Zmiri-disable-isolation -Zmiri-many-seeds={}..{}", from, from + seeds);
    let target = target_dir().join("miri");
    let r = cargo(
        &["+nightly", "miri", "run", "--offline", "--bin", "verif_threads", "--", "small", &(ctx.seed % 1_000_000).to_string()],
        &[("MIRIFLAGS", flags), ("CARGO_TARGET_DIR", target.to_string_lossy().to_string())],
        ctx.tier.pick(900, 3600),
    );
    match r {
        Ok(r) => {
            let docs = threads_report(&r.stdout);
            let ub = r.stderr.contains("Undefined Behavior") || r.stderr.contains("Data race detected") || r.stderr.contains("data race");
            report.set("miri_seeds_requested", Json::Int(seeds as i128));
            report.set("miri_reports_received", Json::Int(docs.len() as i128));
            report.set("miri_wall_s", Json::Num(r.wall_s.round()));
            for d in &docs {
                merge_threads_doc(report, d, "miri");
            }
            if ub {
                let line = r.stderr.lines().find(|l| l.contains("Undefined Behavior") || l.contains("ata race")).unwrap_or("").to_string();
                report.violate("miri:undefined-behaviour".to_string(), format!("Miri reports: {} [{}]", line, tail(&r.stderr, 14)), Json::obj().set("kind", Json::str("threads")).set("engine", Json::str("miri")));
            } else if r.timed_out {
                engine_skipped(report, "miri", "watchdog fired".into());
            } else if r.code != Some(0) && docs.iter().all(|d| d.get("mismatch_count").and_then(|v| v.as_i128()).unwrap_or(0) == 0) {
                engine_skipped(report, "miri", format!("failed without a verdict (code {:?}): {}", r.code, tail(&r.stderr, 8)));
            } else if docs.is_empty() {
                engine_skipped(report, "miri", "produced no report".into());
            }
        }
        Err(e) => engine_skipped(report, "miri", format!("cannot run cargo miri: {}", e)),
    }
}

/// (iii) ThreadSanitizer build of the threaded workload (thorough tier).
fn tsan(ctx: &Ctx, report: &mut Report) {
    let target = target_dir().join("tsan");
    let build = cargo(
        &["+nightly", "build", "--offline", "-Zbuild-std", "--target", "x86_64-unknown-linux-gnu", "--release", "--bin", "verif_threads"],
        &[("RUSTFLAGS", "-Zsanitizer=thread".to_string()), ("CARGO_TARGET_DIR", target.to_string_lossy().to_string())],
        1800,
    );
    match build {
        Ok(r) if r.code == Some(0) => {}
        Ok(r) => {
            engine_skipped(report, "tsan", format!("build failed (code {:?}): {}", r.code, tail(&r.stderr, 6)));
            return;
        }
        Err(e) => {
            engine_skipped(report, "tsan", format!("cannot run cargo: {}", e));
            return;
        }
    }
    let exe = target.join("x86_64-unknown-linux-gnu").join("release").join("verif_threads");
    let envs = vec![("TSAN_OPTIONS".to_string(), "halt_on_error=0 exitcode=66 second_deadlock_stack=1".to_string())];
    // ThreadSanitizer reserves terabytes of address space: lift run_check.sh's soft address-space cap for this process
    let lifted: Vec<String> = vec!["-c".into(), "ulimit -S -v unlimited 2>/dev/null; exec \"$0\" \"$@\"".into(), exe.to_string_lossy().to_string(), "run".into(), (ctx.seed % 1_000_000).to_string(), "quick".into()];
    match run_cmd("sh", &lifted, &envs, None, Duration::from_secs(3600)) {
        Ok(r) => {
            let reports = r.stderr.matches("WARNING: ThreadSanitizer").count();
            report.set("tsan_reports", Json::Int(reports as i128));
            report.set("tsan_wall_s", Json::Num(r.wall_s.round()));
            for d in threads_report(&r.stdout) {
                merge_threads_doc(report, &d, "tsan");
            }
            if reports > 0 || r.code == Some(66) {
                // deduplicate by the first espada frame of each report
                let mut sites: Vec<String> = r.stderr.lines().filter(|l| l.contains("espada::")).map(|l| l.trim().to_string()).collect();
                sites.sort();
                sites.dedup();
                report.violate("tsan:data-race".to_string(), format!("ThreadSanitizer printed {} reports; espada frames: {:?}", reports, sites.iter().take(4).collect::<Vec<_>>()), Json::obj().set("kind", Json::str("threads")).set("engine", Json::str("tsan")));
            } else if r.timed_out {
                engine_skipped(report, "tsan", "watchdog fired".into());
            }
        }
        Err(e) => engine_skipped(report, "tsan", format!("cannot run the binary: {}", e)),
    }
}

// ---------------------------------------------------------------- (v) alone in a fresh process
//
// "Depends only on its own flop, ranges and scope" also means: not on what the process did before. Process-wide state
// that the FIRST evaluator of a process fixes for all later ones (a latch, a lazily built table keyed too coarsely)
// cannot be seen by comparing runs inside one process whose history is already fixed. So a few evaluators - ordinary
// ones, ones with an empty seat, one with weights 0 - are each run in fresh child processes: alone, after an evaluator
// with an empty seat was stepped, and after an ordinary one was drained. All answers (order-insensitive fingerprint of
// the complete traces, or the panic site) must agree with each other and with this process, which has thousands of
// evaluators behind it. A change that breaks such an evaluator always (C02/C08's subject) gives the same answer
// everywhere and raises no alarm here.

fn alone_units(seed: u64) -> Vec<Unit> {
    let mut v = Vec::new();
    for i in 0..6usize {
        let mut rng = Rng::derive(seed, "c15-alone", i as u64);
        let flop = textured_flop(&mut rng, i);
        let cards: Vec<u8> = rng.sample(52, 14).into_iter().map(|c| c as u8).collect();
        let a = clustered_range(&mut rng, &cards, 4, WeightMode::Family);
        let b = clustered_range(&mut rng, &cards, 3, WeightMode::Family);
        let ranges: Vec<Combos> = match i {
            0 => vec![a, b],
            1 => vec![a, Vec::new()],
            2 => vec![Vec::new()],
            3 => vec![a],
            4 => vec![a.iter().map(|(p, _)| (*p, 0.0)).collect(), b],
            _ => vec![Vec::new(), b],
        };
        let case = EnumCase::collect(&format!("alone{}", i), flop, ranges);
        let (ranges, cfg) = case.build().expect("collect case builds");
        let from = rng.usize_below(POSITIONS - 40);
        v.push(Unit { case, ranges, cfg, scope: (from_linear(from), from_linear(from + 1 + rng.usize_below(39))) });
    }
    v
}

fn unit_answer(u: &Unit) -> String {
    drive::stepping(0);
    drive::reset_budget();
    let mut n = 0u64;
    let mut sum = 0u64;
    let mut xor = 0u64;
    let r = catch(|| {
        for sd in drive::evaluator(&u.cfg, &u.ranges, Some(u.scope)) {
            let h = crate::util::hash_str(&format!("{:?}", trace_key(&sd)));
            n += 1;
            sum = sum.wrapping_add(h);
            xor ^= crate::util::mix64(h);
        }
    });
    match r {
        Ok(()) => format!("{} showdowns, fingerprint {:016x}/{:016x}", n, sum, xor),
        Err(p) => format!("panic at {}", crate::util::panic_site(&p).rsplit('/').next().unwrap_or("?")),
    }
}

fn alone_child_body(case: &Json) -> Report {
    let mut report = Report::new();
    let seed = case.get("seed").and_then(|v| v.as_i128()).unwrap_or(0) as u64;
    let index = case.get("index").and_then(|v| v.as_i128()).unwrap_or(0) as usize;
    let prelude = case.get("prelude").and_then(|v| v.as_i128()).unwrap_or(0);
    let units = alone_units(seed);
    if index >= units.len() {
        report.inconclusive("unknown unit");
        return report;
    }
    match prelude {
        1 => {
            // an evaluator with an empty seat is the first one this process steps
            let _ = catch(|| {
                let mut it = drive::evaluator(&units[1].cfg, &units[1].ranges, None).into_iter();
                let _ = it.next();
                let _ = it.next();
            });
        }
        2 => {
            // an ordinary evaluator is drained first
            let _ = unit_answer(&units[0]);
        }
        _ => {}
    }
    report.evaluations = 1;
    report.set("alone_answer", Json::str(unit_answer(&units[index])));
    report
}

fn alone_probe(ctx: &Ctx, report: &mut Report) {
    let exe = match std::env::current_exe() {
        Ok(e) => e,
        Err(e) => {
            report.inconclusive(format!("fresh-process probe: {}", e));
            return;
        }
    };
    let units = alone_units(ctx.seed);
    for (i, u) in units.iter().enumerate() {
        let here = unit_answer(u);
        let mut answers: Vec<(String, String)> = vec![("in this process, after thousands of other evaluators".to_string(), here)];
        for (prelude, label) in [(0, "alone in a fresh process"), (1, "in a fresh process after an evaluator with an empty seat was stepped"), (2, "in a fresh process after an ordinary evaluator was drained")] {
            let case = Json::obj().set("kind", Json::str("alone")).set("seed", Json::Int(ctx.seed as i128)).set("index", Json::Int(i as i128)).set("prelude", Json::Int(prelude));
            report.count("fresh_process_runs", 1);
            match child::run_case(&exe, "C15", &case, 8 << 20, Duration::from_secs(300)) {
                ChildOutcome::Reported(doc) => match doc.get("extra").and_then(|e| e.get("alone_answer")).and_then(|a| a.as_str()) {
                    Some(a) => answers.push((label.to_string(), a.to_string())),
                    None => report.inconclusive(format!("fresh-process probe: no answer from the child for unit {} ({})", i, label)),
                },
                ChildOutcome::Crashed { signal, code, stack_overflow, .. } => answers.push((label.to_string(), format!("process died (signal {:?}, code {:?}, stack overflow {})", signal, code, stack_overflow))),
                ChildOutcome::Timeout { after_s } => report.inconclusive(format!("fresh-process probe timed out after {:.0}s", after_s)),
                ChildOutcome::SpawnFailed(e) => report.inconclusive(format!("fresh-process probe: {}", e)),
            }
        }
        report.evaluations += answers.len() as u64;
        if let Some(other) = answers.iter().find(|(_, a)| *a != answers[0].1) {
            report.violate(
                format!("alone:{}:{}", ctx.seed, i),
                format!(
                    "one evaluator ({}, scope {:?}) answers differently depending on what its process did before: {}: {}; {}: {} [all: {:?}]",
                    super::c02::cfg_short(&u.cfg), u.scope, answers[0].0, answers[0].1, other.0, other.1, answers
                ),
                Json::obj().set("kind", Json::str("alone")).set("seed", Json::Int(ctx.seed as i128)).set("index", Json::Int(i as i128)).set("prelude", Json::Int(0)),
            );
        }
    }
    child::cleanup_scratch();
}

pub fn run(ctx: &Ctx) -> Report {
    let n = ctx.tier.pick(2000u64, 50_000);
    let seed = ctx.seed;
    let results = par_run(n as usize, 10, |_| Report::new(), |report, i| run_schedule(seed, i as u64, report));
    let mut report = Report::new();
    for r in results {
        report.merge(r);
    }
    alone_probe(ctx, &mut report);
    let threads_ok = sendsync(&mut report);
    if threads_ok {
        native_threads(ctx, &mut report);
        if std::env::var("VERIF_SKIP_MIRI").is_err() {
            miri(ctx, &mut report);
        }
        if ctx.tier == Tier::Thorough && std::env::var("VERIF_SKIP_TSAN").is_err() {
            tsan(ctx, &mut report);
        }
    }
    report.rule = "executions: (i) one seeded schedule of next() calls over 2..12 live evaluators on one thread (round-robin, bursts, random, one starved, with foreign library calls in between), each evaluator's sequence of complete showdown traces compared with its solo run over the very same range objects; (ii) the threaded workload (one evaluator per thread released by a barrier, delays injected between next() calls, iterators handed to other threads mid-way, showdowns and ranges read through Arc on other threads) natively and (iii) under Miri with several scheduler seeds [thorough: also ThreadSanitizer]; (iv) the Send + Sync probe built by the type checker; distinct = distinct single-thread schedule hashes (thread interleavings observed are counted separately)".into();
    report.assumptions.push("OS schedules are sampled, not enumerated; the library has no internal suspension point, so delays are injected only between next() calls".into());
    report.assumptions.push("a Miri/TSan/cargo failure that is not a report of undefined behaviour or a race is never a violation: the engine is listed under engines_skipped and the verdict rests on the engines that ran (the in-process interleavings, the Send+Sync probe and the native threaded workload are mandatory: if one of them cannot run the check is inconclusive)".into());
    for index in 0..3u64 {
        let mut rng = Rng::derive(ctx.seed, "c15-schedule", index);
        let k = 2 + rng.usize_below(11);
        let units = make_units(&mut rng, k);
        let kind = rng.below(6);
        report.sample(
            Json::obj()
                .set("schedule_index", Json::Int(index as i128))
                .set("kind", Json::str(schedule_name(kind)))
                .set("live_evaluators", Json::Int(k as i128))
                .set("evaluators", Json::arr(units.iter().take(3).map(|u| u.case.summary().set("scope", Json::str(format!("{:?}", u.scope)))))),
        );
    }
    report
}

pub fn replay(case: &Json, ctx: &Ctx) -> Report {
    let mut report = Report::new();
    match case.get("kind").and_then(|k| k.as_str()) {
        Some("schedule") => {
            let seed = case.get("seed").and_then(|v| v.as_i128()).unwrap_or(0) as u64;
            let index = case.get("index").and_then(|v| v.as_i128()).unwrap_or(0) as u64;
            run_schedule(seed, index, &mut report);
        }
        Some("sendsync") => {
            sendsync(&mut report);
        }
        Some("alone") => {
            if ctx.in_child {
                return alone_child_body(case);
            }
            let seed = case.get("seed").and_then(|v| v.as_i128()).unwrap_or(0) as u64;
            let mut c = Ctx::new("C15", ctx.tier, seed);
            c.in_child = false;
            alone_probe(&c, &mut report);
        }
        Some("threads") => match case.get("engine").and_then(|e| e.as_str()) {
            Some("miri") => miri(ctx, &mut report),
            Some("tsan") => tsan(ctx, &mut report),
            _ => native_threads(ctx, &mut report),
        },
        _ => report.inconclusive("unknown replay case"),
    }
    report
}
