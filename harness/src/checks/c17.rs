//! C17 — range text is canonical: equal ranges print identically and runs are merged.

use super::c06::{for_each_content, pattern_jobs, Job, TextStats};
use super::rangegen::*;
use crate::conv::{card_pair, pair_text, weight_text, Pid};
use crate::core::{Ctx, Report, Tier};
use crate::json::Json;
use crate::refmodel::notation::{parse_formatted, Tok};
use crate::refmodel::split::{runs, split};
use crate::util::{catch, par_run, Rng};
use espada::hand_range::{CardPair, HandRange};
use std::collections::BTreeMap;

/// Structure of the text against R4: rank-pair tokens = the maximal equal-weight runs, in
/// canonical order; single-combo tokens = the leftovers (as a set with weights).
fn check_structure(content: &Content, text: &str, report: &mut Report, label: &str) -> (u64, u64) {
    let case = || content_json("canonical", content);
    let sig = |kind: &str| format!("{}:{}:{:016x}", kind, label, content_hash(content));
    let tokens = match parse_formatted(text) {
        Some(t) => t,
        None => {
            report.violate(sig("not-tokens"), format!("the text is not a comma-separated list of well-formed tokens: '{}'", clip(text)), case());
            return (0, 0);
        }
    };
    let s = split(content);
    let want_runs = runs(&s.complete);
    let mut i = 0usize;
    // rank-pair tokens first, one per maximal run, in canonical order
    for run in &want_runs {
        let tok = match tokens.get(i) {
            Some(t) if t.0.is_rank_pair_token() => t,
            _ => {
                report.violate(sig("run-missing"), format!("the run {:?} has no token at position {} of '{}'", run, i, clip(text)), case());
                return (want_runs.len() as u64, 0);
            }
        };
        let cells = tok.0.cells().unwrap();
        let ok = tok.0.row_kind() == run.kind && cells == (run.high, run.first, run.last) && tok.1.to_bits() == run.weight.to_bits();
        if !ok {
            report.violate(
                sig("run-token"),
                format!("token {} ('{}:{}') does not write the maximal run {:?} that is due here; text '{}'", i, tok.0.text(), weight_text(tok.1), run, clip(text)),
                case(),
            );
            return (want_runs.len() as u64, 0);
        }
        i += 1;
    }
    // then only single combos
    let mut singles: BTreeMap<Pid, f32> = BTreeMap::new();
    let mut single_tokens = 0u64;
    for tok in &tokens[i..] {
        match tok.0 {
            Tok::Combo(a, b) => {
                let p = crate::conv::pid(a, b);
                if let Some(prev) = singles.insert(p, tok.1) {
                    if prev.to_bits() != tok.1.to_bits() {
                        report.violate(sig("combo-twice"), format!("single combo {} appears with two weights; text '{}'", pair_text(p), clip(text)), case());
                        return (want_runs.len() as u64, single_tokens);
                    }
                }
                single_tokens += 1;
            }
            _ => {
                report.violate(
                    sig("extra-rank-pair-token"),
                    format!("rank-pair token '{}' after the {} maximal runs: it repeats, splits or misorders a run; text '{}'", tok.0.text(), want_runs.len(), clip(text)),
                    case(),
                );
                return (want_runs.len() as u64, single_tokens);
            }
        }
    }
    if !same_content(&s.leftovers, &singles) {
        report.violate(sig("leftovers"), format!("single-combo tokens differ from the leftovers: {}; text '{}'", first_difference(&s.leftovers, &singles), clip(text)), case());
    }
    (want_runs.len() as u64, single_tokens)
}

fn clip(s: &str) -> String {
    if s.len() > 200 {
        format!("{}...[{} bytes]", &s[..200], s.len())
    } else {
        s.to_string()
    }
}

/// Builds the same contents along different construction histories.
fn histories(content: &Content, text: &str, rng: &mut Rng, with_parse: bool) -> Vec<(&'static str, HandRange)> {
    let mut v: Vec<(&'static str, HandRange)> = Vec::new();
    let items: Vec<(CardPair, f32)> = content.iter().map(|(p, w)| (card_pair(*p), *w)).collect();
    for _ in 0..4 {
        let mut shuffled = items.clone();
        rng.shuffle(&mut shuffled);
        v.push(("shuffled-collect", shuffled.into_iter().collect()));
    }
    // descending order
    v.push(("reverse-collect", items.iter().rev().cloned().collect()));
    // wrong weights first, overwritten later
    let mut twice: Vec<(CardPair, f32)> = items.iter().map(|(p, _)| (*p, pick_weight(rng))).collect();
    rng.shuffle(&mut twice);
    twice.extend(items.iter().cloned());
    v.push(("overwritten", twice.into_iter().collect()));
    // grown past the final size, then rebuilt without the extras (different capacity history)
    let extras = random_subset(rng, 0.5);
    let mut big: Vec<(CardPair, f32)> = extras.iter().filter(|(p, _)| !content.contains_key(p)).map(|(p, w)| (card_pair(*p), *w)).collect();
    big.extend(items.iter().cloned());
    rng.shuffle(&mut big);
    let big: HandRange = big.into_iter().collect();
    let rebuilt: HandRange = big
        .card_pairs()
        .iter()
        .filter(|(p, _)| content.contains_key(&crate::conv::pid_of(p)))
        .map(|(p, w)| (*p, *w))
        .collect();
    v.push(("rebuilt-from-larger", rebuilt));
    // reversed card order inside each pair
    v.push(("cards-swapped", content.iter().map(|(p, w)| (CardPair::new(crate::conv::card(p.1), crate::conv::card(p.0)), *w)).collect()));
    v.push(("clone", v[0].1.clone()));
    if content.values().all(|w| *w == 1.0) {
        v.push(("collect-card-pairs", items.iter().map(|(p, _)| *p).collect()));
    }
    if with_parse {
        if let Ok(Ok(r)) = catch(|| text.parse::<HandRange>()) {
            v.push(("parsed-own-text", r));
        }
        // permuted token list
        let mut toks: Vec<&str> = if text.is_empty() { vec![] } else { text.split(',').collect() };
        rng.shuffle(&mut toks);
        let permuted = toks.join(" , ");
        if let Ok(Ok(r)) = catch(|| permuted.parse::<HandRange>()) {
            v.push(("parsed-permuted-tokens", r));
        }
        if content.len() <= 80 {
            let singles: Vec<String> = content.iter().map(|(p, w)| format!("{}{}:{}", crate::conv::card_text(p.1), crate::conv::card_text(p.0), w)).collect();
            let mut singles = singles;
            rng.shuffle(&mut singles);
            if let Ok(Ok(r)) = catch(|| singles.join(",").parse::<HandRange>()) {
                v.push(("parsed-all-single-combos", r));
            }
        }
    }
    v
}

pub fn check_content(content: &Content, label: &str, rng: &mut Rng, depth: u8, report: &mut Report, stats: &mut TextStats) {
    report.evaluations += 1;
    let base = to_range(content);
    let text = match catch(|| base.to_string()) {
        Ok(t) => t,
        Err(p) => {
            report.violate(format!("format-panic:{}:{:016x}", label, content_hash(content)), format!("to_string() panicked: {}", p), content_json("canonical", content));
            return;
        }
    };
    stats.observe(&text);
    let (n_runs, n_singles) = check_structure(content, &text, report, label);
    report.count("maximal_runs_expected", n_runs);
    report.count("single_combo_tokens_seen", n_singles);
    if depth == 0 {
        return;
    }
    // a formatter call on this thread whose writer failed midway must leave no trace in later texts
    super::c06::interrupted_write(rng.usize_below(48));
    report.count("interrupted_writes_before_histories", 1);
    // a neighbour range (one weight moved by one ulp): if the library calls the two equal, they must print alike
    if let Some((k, w)) = content.iter().nth(rng.usize_below(content.len().max(1))).map(|(k, w)| (*k, *w)) {
        let bits = w.to_bits();
        let nudged = if bits >= 0x3f80_0000 { f32::from_bits(bits - 1) } else { f32::from_bits(bits + 1) };
        let mut other = content.clone();
        other.insert(k, nudged);
        let other_range = to_range(&other);
        let eq = catch(|| other_range == base && base == other_range).unwrap_or(false);
        report.count("neighbour_ranges_compared", 1);
        if eq {
            report.count("neighbour_ranges_called_equal", 1);
            let t = catch(|| other_range.to_string()).unwrap_or_else(|p| format!("<panic {}>", p));
            if t != text {
                report.violate(
                    format!("equal-but-different-text:{}:{:016x}", label, content_hash(content)),
                    format!("two ranges the library calls == ({} has weight {} in one, {} in the other) print differently: '{}' vs '{}'", pair_text(k), weight_text(w), weight_text(nudged), clip(&text), clip(&t)),
                    content_json("canonical", content),
                );
            }
        }
    }
    let hs = histories(content, &text, rng, depth >= 2);
    report.count("histories_compared", hs.len() as u64);
    let mut texts: Vec<String> = vec![text.clone()];
    for (name, r) in hs {
        if read_range(&r) != *content && !same_content(&read_range(&r), content) {
            // the history did not reproduce the contents (a parser matter, C05/C06): not comparable
            report.count("histories_not_reproducing_contents", 1);
            continue;
        }
        let t = catch(|| r.to_string()).unwrap_or_else(|p| format!("<panic {}>", p));
        if t != text {
            report.violate(
                format!("history:{}:{}:{:016x}", name, label, content_hash(content)),
                format!("the same contents print differently after history '{}': '{}' vs '{}'", name, clip(&t), clip(&text)),
                content_json("canonical", content).set("history", Json::str(name)),
            );
        }
        if r != base {
            report.count("histories_equal_by_content_but_not_by_eq", 1);
        }
        if !texts.contains(&t) {
            texts.push(t);
        }
    }
    report.max("max_distinct_texts_per_content", texts.len() as u64);
}

/// Contents whose zero weights carry mixed signs: equal-looking zeros are different contents bit for
/// bit, and the text must still depend on the contents only (compared across histories; the structure of
/// such texts is not judged because "-0" is no weight literal of the notation).
fn signed_zero_histories(seed: u64, report: &mut Report, stats: &mut TextStats) {
    let mut rng = Rng::derive(seed, "c17-signed-zero", 0);
    let neg = f32::from_bits(0x8000_0000);
    for round in 0..60 {
        let mut content = match round % 3 {
            0 => content_from_cells(&row(0, 0), &[1, 1, 0, 2, 2, 0, 0, 1, 0, 0, 0, 0, 2], 0.0, neg),
            1 => random_content(&mut rng, 0.5, 0.1),
            _ => content_from_cells(&row(2, (round % 11) as u8), &vec![1; row(2, (round % 11) as u8).len()], 0.0, 0.0),
        };
        // flip the sign of the zero on a few combos, and zero a few weights
        let keys: Vec<Pid> = content.keys().cloned().collect();
        for _ in 0..(1 + keys.len() / 3) {
            let k = keys[rng.usize_below(keys.len())];
            content.insert(k, if rng.chance(1, 2) { neg } else { 0.0 });
        }
        let base = to_range(&content);
        let text = match catch(|| base.to_string()) {
            Ok(t) => t,
            Err(p) => {
                report.violate(format!("format-panic:signed-zero:{:016x}", content_hash(&content)), format!("to_string() panicked: {}", p), content_json("canonical", &content));
                continue;
            }
        };
        stats.observe(&text);
        report.evaluations += 1;
        report.count("signed_zero_contents", 1);
        for (name, r) in histories(&content, &text, &mut rng, false) {
            let same_bits = {
                let got = read_range(&r);
                got.len() == content.len() && got.iter().zip(content.iter()).all(|(a, b)| a.0 == b.0 && a.1.to_bits() == b.1.to_bits())
            };
            if !same_bits {
                continue; // histories that rewrite weights (overwrites with random weights end on the right ones; others may not)
            }
            let t = catch(|| r.to_string()).unwrap_or_else(|p| format!("<panic {}>", p));
            if t != text {
                report.violate(
                    format!("history:{}:signed-zero:{:016x}", name, content_hash(&content)),
                    format!("bit-identical contents (with zeros of both signs) print differently after history '{}': '{}' vs '{}'", name, clip(&t), clip(&text)),
                    content_json("canonical", &content).set("history", Json::str(name)),
                );
            }
        }
    }
}

pub fn run(ctx: &Ctx) -> Report {
    let thorough = ctx.tier == Tier::Thorough;
    let mut jobs = pattern_jobs(true, thorough, ctx.tier.pick(6000, 0), ctx.tier.pick(12, 78), ctx.tier.pick(400, 3000), ctx.seed);
    let mut rng = Rng::derive(ctx.seed, "c17-order", 0);
    rng.shuffle(&mut jobs);
    let seed = ctx.seed;
    let results = par_run(
        jobs.len(),
        1,
        |w| (Report::new(), TextStats::default(), Rng::derive(seed, "c17-worker", w as u64), 0u64),
        |(report, stats, rng, counter), j| {
            let job: &Job = &jobs[j];
            for_each_content(job, seed, &mut |c, label, h| {
                *counter += 1;
                // structure for every content; histories for a share; parse-based histories for fewer
                let depth = if *counter % 23 == 0 {
                    2
                } else if *counter % 3 == 0 {
                    1
                } else {
                    0
                };
                check_content(c, label, rng, depth, report, stats);
                report.note_distinct(h);
            });
        },
    );
    let mut report = Report::new();
    let mut stats = TextStats::default();
    for (r, s, _, _) in results {
        report.merge(r);
        stats.merge(&s);
    }
    signed_zero_histories(ctx.seed, &mut report, &mut stats);
    stats.put(&mut report);
    report.exhaustive = Some(thorough);
    report.rule = "one execution = to_string() of a real HandRange whose token sequence is read back with the strict notation reader and compared with R4: rank-pair tokens are exactly the maximal equal-weight runs in canonical order (pockets from aces down, then per high card suited then offsuit), then only single combos equal to the leftovers; for a share of the contents the same contents are rebuilt along up to 13 construction histories and must print identically; distinct = distinct (generator, pattern index, weights)".into();
    report.assumptions.push("duplicates among the single-combo tokens are tolerated (the upstream tests pin them for partial pocket pairs); the order among single combos is covered by the identical-text requirement across histories".into());
    report.assumptions.push("a history whose range does not reproduce the contents (parser defect) is skipped and counted, it belongs to C05/C06".into());
    let demo = content_from_cells(&row(1, 0), &[1, 1, 1, 0, 2, 2, 0, 0, 0, 0, 0, 1], 1.0, 0.5);
    report.sample(Json::obj().set("content", Json::str("suited aces: AK AQ AJ (1), A9 A8 (0.5), A2 (1)")).set("observed_text", Json::str(to_range(&demo).to_string())));
    let demo = random_content(&mut Rng::new(ctx.seed), 0.3, 0.05);
    report.sample(Json::obj().set("content", Json::str(format!("{} combos (random)", demo.len()))).set("observed_text", Json::str(clip(&to_range(&demo).to_string()))));
    report
}

pub fn replay(case: &Json) -> Report {
    let mut report = Report::new();
    match content_from_json(case) {
        Some(c) => {
            let mut rng = Rng::new(1);
            for _ in 0..4 {
                check_content(&c, "replay", &mut rng, 2, &mut report, &mut TextStats::default());
            }
        }
        None => report.inconclusive("replay case has no range content"),
    }
    report
}
