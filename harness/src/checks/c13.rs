//! C13 — card, rank and suit encodings are mutually inverse and order-consistent.
//! Fully exhaustive over the finite spaces the property names.

use crate::conv::{card, card_text, RANKS, RANK_CHARS, SUITS, SUIT_CHARS};
use crate::core::{Ctx, Report};
use crate::json::Json;
use crate::util::{catch, hash_str};
use espada::card::{Card, Rank, RankRange, Suit, SuitRange};
use std::collections::HashSet;

struct Rel<'a> {
    report: &'a mut Report,
}

impl<'a> Rel<'a> {
    /// Records one checked relation instance; `ok == false` is a violation.
    fn check(&mut self, relation: &str, input: &str, ok: bool, detail: impl FnOnce() -> String) {
        self.report.evaluations += 1;
        self.report.note_distinct(hash_str(&format!("{}|{}", relation, input)));
        self.report.count(&format!("relation_{}", relation), 1);
        if !ok {
            let d = detail();
            self.report.violate(
                format!("{}:{}", relation, input),
                format!("{} fails for {}: {}", relation, input, d),
                Json::obj().set("kind", Json::str("c13")).set("relation", Json::str(relation)).set("input", Json::str(input)),
            );
        }
    }
}

/// Evaluates a relation instance under the panic recorder: a panic is a failed relation.
fn g(f: impl FnOnce() -> bool) -> (bool, Option<String>) {
    match catch(f) {
        Ok(b) => (b, None),
        Err(p) => (false, Some(p)),
    }
}

pub fn run(ctx: &Ctx) -> Report {
    let mut report = relations();
    if !ctx.in_child {
        // the same relations in the dev profile (debug assertions, overflow checks), in a child process
        dev_pass(ctx, &mut report);
        super::firstuse::run_children(ctx, "cards", 24, &mut report);
    }
    report
}

fn dev_pass(ctx: &Ctx, report: &mut Report) {
    use crate::child::{self, ChildOutcome};
    let exe = match Ctx::exe_for("debug") {
        Some(e) => e,
        None => {
            report.inconclusive("no dev-profile binary available (VERIF_DEBUG_EXE not set)");
            return;
        }
    };
    let case = Json::obj().set("kind", Json::str("dev-all"));
    match child::run_case(&exe, &ctx.id, &case, 8 << 20, std::time::Duration::from_secs(600)) {
        ChildOutcome::Reported(doc) => {
            let ev = report.evaluations;
            child::merge_child_report(report, &doc, "debug:");
            report.evaluations = ev;
            report.count("dev_profile_pass", 1);
        }
        ChildOutcome::Crashed { signal, code, stack_overflow, stderr_tail } => report.violate(
            "debug:crash".to_string(),
            format!("[dev profile] the relation sweep died (signal {:?}, code {:?}, stack overflow {}): {}", signal, code, stack_overflow, stderr_tail),
            case,
        ),
        ChildOutcome::Timeout { after_s } => report.inconclusive(format!("dev-profile pass timed out after {:.0}s", after_s)),
        ChildOutcome::SpawnFailed(e) => report.inconclusive(format!("dev-profile pass: {}", e)),
    }
    child::cleanup_scratch();
}

/// A `fmt::Write` sink that fails after `left` bytes.
struct FailingSink {
    left: usize,
}

impl std::fmt::Write for FailingSink {
    fn write_str(&mut self, s: &str) -> std::fmt::Result {
        if s.len() > self.left {
            self.left = 0;
            return Err(std::fmt::Error);
        }
        self.left -= s.len();
        Ok(())
    }
}

fn relations() -> Report {
    let mut report = Report::new();
    report.rule = "every instance of every relation named by the property is enumerated once (card<->bit, card<->text, all 1- and 2-character ASCII strings, rank/suit<->number<->char, Ord, next/prev, every start<=end endpoint pair of RankRange/SuitRange); distinct = distinct (relation,input) pairs".into();
    report.exhaustive = Some(true);
    report.assumptions.push("cards are built with Card::new from the public Rank/Suit variants; the oracle order is ace..deuce, spade heart diamond club as the property states".into());
    let mut r = Rel { report: &mut report };

    // ---- cards <-> single bits
    let mut bits_seen: HashSet<u64> = HashSet::new();
    for id in 0..52u8 {
        let c = card(id);
        let name = card_text(id);
        let by_val = catch(|| u64::from(c));
        let by_ref = catch(|| u64::from(&c));
        match (by_val, by_ref) {
            (Ok(a), Ok(b)) => {
                r.check("card_to_bit_single_low52", &name, a.count_ones() == 1 && a < (1u64 << 52) && a == b, || format!("value {:#x} / by reference {:#x}", a, b));
                r.check("card_to_bit_distinct", &name, bits_seen.insert(a), || format!("bit {:#x} already used by another card", a));
                let back = catch(|| (Card::from(a), Card::from(&a)));
                match back {
                    Ok((x, y)) => r.check("bit_to_card_inverse", &name, x == c && y == c, || format!("{:#x} converts back to {:?} / {:?}", a, x, y)),
                    Err(p) => r.check("bit_to_card_inverse", &name, false, || format!("panic {}", p)),
                }
            }
            (a, b) => r.check("card_to_bit_single_low52", &name, false, || format!("panic {:?} {:?}", a.err(), b.err())),
        }
    }
    for i in 0..52u32 {
        let w = 1u64 << i;
        let name = format!("bit{}", i);
        match catch(|| Card::from(w)) {
            Ok(c) => {
                let again = catch(|| u64::from(c));
                r.check("low_bit_to_card_to_bit", &name, again == Ok(w), || format!("{:#x} -> {:?} -> {:?}", w, c, again));
            }
            Err(p) => r.check("low_bit_to_card_to_bit", &name, false, || format!("panic {}", p)),
        }
    }

    // ---- cards <-> text
    let mut texts: HashSet<String> = HashSet::new();
    for id in 0..52u8 {
        let c = card(id);
        let name = card_text(id);
        let t = catch(|| c.to_string()).unwrap_or_else(|p| format!("<panic {}>", p));
        r.check("card_to_text", &name, t == name, || format!("formats as '{}'", t));
        r.check("card_text_distinct", &name, texts.insert(t.clone()), || "text already used".into());
        let back = catch(|| t.parse::<Card>());
        r.check("text_to_card_inverse", &name, matches!(&back, Ok(Ok(x)) if *x == c), || format!("'{}' parses to {:?}", t, back));
    }
    // every one- and two-character ASCII string
    for a in 0..128u8 {
        let s = (a as char).to_string();
        let res = catch(|| s.parse::<Card>());
        r.check("ascii1_rejected", &format!("{:02x}", a), matches!(res, Ok(Err(_))), || format!("{:?}", res.as_ref().map(|r| r.as_ref().ok())));
    }
    for a in 0..128u8 {
        for b in 0..128u8 {
            let s: String = [a as char, b as char].iter().collect();
            let ri = RANK_CHARS.iter().position(|c| *c == a as char);
            let si = SUIT_CHARS.iter().position(|c| *c == b as char);
            let expected = match (ri, si) {
                (Some(ri), Some(si)) => Some(card((ri * 4 + si) as u8)),
                _ => None,
            };
            let res = catch(|| s.parse::<Card>());
            let ok = match (&res, expected) {
                (Ok(Ok(c)), Some(e)) => *c == e,
                (Ok(Err(_)), None) => true,
                _ => false,
            };
            r.check("ascii2_exactly_the_52", &format!("{:02x}{:02x}", a, b), ok, || format!("'{}' gives {:?}, expected {:?}", s.escape_debug(), res.as_ref().map(|r| r.as_ref().ok()), expected));
        }
    }

    // ---- ranks
    for (i, rank) in RANKS.iter().enumerate() {
        let name = RANK_CHARS[i].to_string();
        let (ok, p) = g(|| u8::from(*rank) == i as u8 && u8::from(rank) == i as u8);
        r.check("rank_to_u8", &name, ok, || p.unwrap_or_else(|| format!("{}", u8::from(*rank))));
        let (ok, p) = g(|| char::from(*rank) == RANK_CHARS[i] && char::from(rank) == RANK_CHARS[i]);
        r.check("rank_to_char", &name, ok, || p.unwrap_or_else(|| format!("{}", char::from(*rank))));
        let (ok, p) = g(|| rank.to_string() == name);
        r.check("rank_display", &name, ok, || p.unwrap_or_else(|| rank.to_string()));
        let (ok, p) = g(|| Rank::try_from(RANK_CHARS[i]) == Ok(*rank) && Rank::try_from(&RANK_CHARS[i]) == Ok(*rank));
        r.check("char_to_rank", &name, ok, || p.unwrap_or_else(|| format!("{:?}", Rank::try_from(RANK_CHARS[i]))));
        let (ok, p) = g(|| name.parse::<Rank>() == Ok(*rank));
        r.check("str_to_rank", &name, ok, || p.unwrap_or_else(|| format!("{:?}", name.parse::<Rank>())));
        let next = if i < 12 { Some(RANKS[i + 1]) } else { None };
        let prev = if i > 0 { Some(RANKS[i - 1]) } else { None };
        let (ok, p) = g(|| rank.next() == next);
        r.check("rank_next", &name, ok, || p.unwrap_or_else(|| format!("{:?}", rank.next())));
        let (ok, p) = g(|| rank.prev() == prev);
        r.check("rank_prev", &name, ok, || p.unwrap_or_else(|| format!("{:?}", rank.prev())));
        for (j, other) in RANKS.iter().enumerate() {
            let pair = format!("{}{}", RANK_CHARS[i], RANK_CHARS[j]);
            let (ok, p) = g(|| {
                rank.cmp(other) == i.cmp(&j)
                    && rank.partial_cmp(other) == Some(i.cmp(&j))
                    && (rank < other) == (i < j)
                    && (rank == other) == (i == j)
            });
            r.check("rank_order", &pair, ok, || p.unwrap_or_else(|| format!("{:?}", rank.cmp(other))));
        }
    }
    // Characters outside the 13 + 4 notation letters: the statement demands their rejection at the card level
    // (checked above for every one- and two-character ASCII text). What the rank/suit converters answer for
    // them on their own is recorded, not judged; a panic, however, is never acceptable.
    for a in 0..=0x2ffu32 {
        if let Some(ch) = char::from_u32(a) {
            let is_rank = RANK_CHARS.contains(&ch);
            let is_suit = SUIT_CHARS.contains(&ch);
            for (name, res) in [
                ("char_to_rank_no_panic", catch(|| Rank::try_from(ch).is_ok())),
                ("str_to_rank_no_panic", catch(|| ch.to_string().parse::<Rank>().is_ok())),
            ] {
                r.check(name, &format!("{:04x}", a), res.is_ok(), || format!("{:?}", res));
                if res == Ok(true) && !is_rank {
                    r.report.count("foreign_characters_accepted_as_rank", 1);
                }
            }
            for (name, res) in [
                ("char_to_suit_no_panic", catch(|| Suit::try_from(ch).is_ok())),
                ("str_to_suit_no_panic", catch(|| ch.to_string().parse::<Suit>().is_ok())),
            ] {
                r.check(name, &format!("{:04x}", a), res.is_ok(), || format!("{:?}", res));
                if res == Ok(true) && !is_suit {
                    r.report.count("foreign_characters_accepted_as_suit", 1);
                }
            }
        }
    }

    // ---- suits
    for (i, suit) in SUITS.iter().enumerate() {
        let name = SUIT_CHARS[i].to_string();
        let (ok, p) = g(|| u8::from(*suit) == i as u8 && u8::from(suit) == i as u8);
        r.check("suit_to_u8", &name, ok, || p.unwrap_or_else(|| format!("{}", u8::from(*suit))));
        let (ok, p) = g(|| char::from(*suit) == SUIT_CHARS[i] && char::from(suit) == SUIT_CHARS[i]);
        r.check("suit_to_char", &name, ok, || p.unwrap_or_else(|| format!("{}", char::from(*suit))));
        let (ok, p) = g(|| suit.to_string() == name);
        r.check("suit_display", &name, ok, || p.unwrap_or_else(|| suit.to_string()));
        let (ok, p) = g(|| Suit::try_from(SUIT_CHARS[i]) == Ok(*suit) && Suit::try_from(&SUIT_CHARS[i]) == Ok(*suit));
        r.check("char_to_suit", &name, ok, || p.unwrap_or_else(|| format!("{:?}", Suit::try_from(SUIT_CHARS[i]))));
        let (ok, p) = g(|| name.parse::<Suit>() == Ok(*suit));
        r.check("str_to_suit", &name, ok, || p.unwrap_or_else(|| format!("{:?}", name.parse::<Suit>())));
        for (j, other) in SUITS.iter().enumerate() {
            let pair = format!("{}{}", SUIT_CHARS[i], SUIT_CHARS[j]);
            let (ok, p) = g(|| {
                suit.cmp(other) == i.cmp(&j)
                    && suit.partial_cmp(other) == Some(i.cmp(&j))
                    && (suit < other) == (i < j)
                    && (suit == other) == (i == j)
            });
            r.check("suit_order", &pair, ok, || p.unwrap_or_else(|| format!("{:?}", suit.cmp(other))));
        }
    }

    // ---- card order = (rank, suit) lexicographic = id order; accessors
    for a in 0..52u8 {
        let ca = card(a);
        let (ok, p) = g(|| *ca.rank() == RANKS[(a / 4) as usize] && *ca.suit() == SUITS[(a % 4) as usize]);
        r.check("card_accessors", &card_text(a), ok, || p.unwrap_or_else(|| format!("{:?} {:?}", ca.rank(), ca.suit())));
        for b in 0..52u8 {
            let cb = card(b);
            let (ok, p) = g(|| {
                ca.cmp(&cb) == a.cmp(&b)
                    && ca.partial_cmp(&cb) == Some(a.cmp(&b))
                    && (ca < cb) == (a < b)
                    && (ca == cb) == (a == b)
            });
            r.check("card_order", &format!("{}{}", card_text(a), card_text(b)), ok, || p.unwrap_or_else(|| format!("{:?}", ca.cmp(&cb))));
        }
    }

    // ---- text forms after a formatter call whose sink failed midway (on this thread)
    for id in 0..52u8 {
        use std::fmt::Write;
        let other = card((id + 17) % 52);
        for budget in [0usize, 1] {
            let _ = catch(|| {
                let mut sink = FailingSink { left: budget };
                let _ = write!(&mut sink, "{}", other);
                let _ = write!(&mut sink, "{:?}", other);
                let _ = write!(&mut sink, "{}{}", other.rank(), other.suit());
            });
            let t = catch(|| card(id).to_string()).unwrap_or_else(|p| format!("<panic {}>", p));
            r.check("card_to_text_after_failed_write", &format!("{}:{}", card_text(id), budget), t == card_text(id), || format!("formats as '{}'", t));
            let back = catch(|| t.parse::<Card>().ok());
            r.check("text_round_trip_after_failed_write", &format!("{}:{}", card_text(id), budget), back == Ok(Some(card(id))), || format!("'{}' parses to {:?}", t, back));
        }
    }

    // ---- ranges: every endpoint pair with start <= end
    for i in 0..13usize {
        for j in i..13usize {
            let name = format!("{}{}", RANK_CHARS[i], RANK_CHARS[j]);
            let got = catch(|| RankRange::new(RANKS[i], RANKS[j]).into_iter().collect::<Vec<_>>());
            r.check("rank_range_half_open", &name, got.as_deref() == Ok(&RANKS[i..j]), || format!("{:?}", got));
            let got = catch(|| RankRange::inclusive(RANKS[i], RANKS[j]).into_iter().collect::<Vec<_>>());
            r.check("rank_range_inclusive", &name, got.as_deref() == Ok(&RANKS[i..=j]), || format!("{:?}", got));
        }
    }
    let got = catch(|| RankRange::all().into_iter().collect::<Vec<_>>());
    r.check("rank_range_all", "all", got.as_deref() == Ok(&RANKS[..]), || format!("{:?}", got));
    for i in 0..4usize {
        for j in i..4usize {
            let name = format!("{}{}", SUIT_CHARS[i], SUIT_CHARS[j]);
            let got = catch(|| SuitRange::new(SUITS[i], SUITS[j]).into_iter().collect::<Vec<_>>());
            r.check("suit_range_half_open", &name, got.as_deref() == Ok(&SUITS[i..j]), || format!("{:?}", got));
            let got = catch(|| SuitRange::inclusive(SUITS[i], SUITS[j]).into_iter().collect::<Vec<_>>());
            r.check("suit_range_inclusive", &name, got.as_deref() == Ok(&SUITS[i..=j]), || format!("{:?}", got));
        }
    }
    let got = catch(|| SuitRange::all().into_iter().collect::<Vec<_>>());
    r.check("suit_range_all", "all", got.as_deref() == Ok(&SUITS[..]), || format!("{:?}", got));

    report.sample(Json::obj().set("relation", Json::str("card_to_bit")).set("input", Json::str("As")).set("observed", Json::str(format!("{:?}", catch(|| format!("{:#x}", u64::from(card(0))))))));
    report.sample(Json::obj().set("relation", Json::str("card_to_bit")).set("input", Json::str("2c")).set("observed", Json::str(format!("{:?}", catch(|| format!("{:#x}", u64::from(card(51))))))));
    report.sample(Json::obj().set("relation", Json::str("ascii2_exactly_the_52")).set("input", Json::str("Td")).set("observed", Json::str(format!("{:?}", catch(|| "Td".parse::<Card>().ok())))));
    report.sample(Json::obj().set("relation", Json::str("rank_range_inclusive")).set("input", Json::str("Q7")).set("observed", Json::str(format!("{:?}", catch(|| RankRange::inclusive(Rank::Queen, Rank::Seven).into_iter().collect::<Vec<_>>())))));
    report
}
