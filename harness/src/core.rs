//! Check context, reports, verdicts, evidence files, known findings, replay files.

use crate::json::Json;
use std::collections::HashSet;
use std::path::{Path, PathBuf};
use std::time::Instant;

#[derive(Clone, Copy, Debug, PartialEq, Eq)]
pub enum Tier {
    Quick,
    Thorough,
}

impl Tier {
    pub fn name(&self) -> &'static str {
        match self {
            Tier::Quick => "quick",
            Tier::Thorough => "thorough",
        }
    }

    pub fn pick<T>(&self, quick: T, thorough: T) -> T {
        match self {
            Tier::Quick => quick,
            Tier::Thorough => thorough,
        }
    }
}

pub struct Ctx {
    pub id: String,
    pub tier: Tier,
    pub seed: u64,
    pub verif_dir: PathBuf,
    pub start: Instant,
    /// true inside a crash-isolated child process (`verif child ...`)
    pub in_child: bool,
}

impl Ctx {
    pub fn new(id: &str, tier: Tier, seed: u64) -> Ctx {
        let verif_dir = std::env::var("VERIF_DIR")
            .map(PathBuf::from)
            .unwrap_or_else(|_| PathBuf::from("/verif"));
        Ctx { id: id.to_string(), tier, seed, verif_dir, start: Instant::now(), in_child: false }
    }

    /// The binary of the given profile: this executable for its own profile, the path in
    /// VERIF_DEBUG_EXE / VERIF_RELEASE_EXE (exported by run_check.sh) for the other one.
    pub fn exe_for(profile: &str) -> Option<PathBuf> {
        if profile == Ctx::profile() {
            return std::env::current_exe().ok();
        }
        let var = if profile == "debug" { "VERIF_DEBUG_EXE" } else { "VERIF_RELEASE_EXE" };
        match std::env::var(var) {
            Ok(p) if Path::new(&p).exists() => Some(PathBuf::from(p)),
            _ => {
                // sibling target directory layout: .../target/<release|debug>/verif
                let me = std::env::current_exe().ok()?;
                let dir = me.parent()?.parent()?;
                let cand = dir.join(profile).join("verif");
                if cand.exists() {
                    Some(cand)
                } else {
                    None
                }
            }
        }
    }

    pub fn profile() -> &'static str {
        if cfg!(debug_assertions) {
            "debug"
        } else {
            "release"
        }
    }

    pub fn elapsed(&self) -> f64 {
        self.start.elapsed().as_secs_f64()
    }
}

#[derive(Clone, Debug)]
pub struct Violation {
    /// exact, stable identification of the failing input / call site / history
    pub signature: String,
    pub what: String,
    /// self-contained case description understood by `checks::replay`
    pub case: Json,
}

/// What one run observed. Workers keep their own report and merge at the end.
pub struct Report {
    pub evaluations: u64,
    pub distinct: HashSet<u64>,
    /// distinct cases counted by other exact means (bitmaps, enumeration without repetition)
    pub distinct_extra: u64,
    pub rule: String,
    pub samples: Vec<Json>,
    pub extra: Json,
    pub exhaustive: Option<bool>,
    pub assumptions: Vec<String>,
    pub violations: Vec<Violation>,
    pub violation_count: u64,
    pub inconclusive: Vec<String>,
}

pub const MAX_KEPT_VIOLATIONS: usize = 40;
pub const MAX_SAMPLES: usize = 12;

impl Default for Report {
    fn default() -> Self {
        Report::new()
    }
}

impl Report {
    pub fn new() -> Report {
        Report {
            evaluations: 0,
            distinct: HashSet::new(),
            distinct_extra: 0,
            rule: String::new(),
            samples: Vec::new(),
            extra: Json::obj(),
            exhaustive: None,
            assumptions: Vec::new(),
            violations: Vec::new(),
            violation_count: 0,
            inconclusive: Vec::new(),
        }
    }

    pub fn violate(&mut self, signature: impl Into<String>, what: impl Into<String>, case: Json) {
        self.violation_count += 1;
        let signature = signature.into();
        if self.violations.len() < MAX_KEPT_VIOLATIONS
            && !self.violations.iter().any(|v| v.signature == signature)
        {
            self.violations.push(Violation { signature, what: what.into(), case });
        }
    }

    pub fn sample(&mut self, s: Json) {
        if self.samples.len() < MAX_SAMPLES {
            self.samples.push(s);
        }
    }

    pub fn note_distinct(&mut self, h: u64) {
        self.distinct.insert(h);
    }

    pub fn inconclusive(&mut self, reason: impl Into<String>) {
        self.inconclusive.push(reason.into());
    }

    /// Adds a counter kept in `extra`.
    pub fn count(&mut self, key: &str, by: u64) {
        let cur = self.extra.get(key).and_then(|v| v.as_i128()).unwrap_or(0);
        self.extra.put(key, Json::Int(cur + by as i128));
    }

    pub fn max(&mut self, key: &str, v: u64) {
        let cur = self.extra.get(key).and_then(|v| v.as_i128()).unwrap_or(0);
        if v as i128 > cur || self.extra.get(key).is_none() {
            self.extra.put(key, Json::Int(v as i128));
        }
    }

    pub fn set(&mut self, key: &str, v: Json) {
        self.extra.put(key, v);
    }

    pub fn merge(&mut self, other: Report) {
        self.evaluations += other.evaluations;
        self.distinct.extend(other.distinct);
        self.distinct_extra += other.distinct_extra;
        for s in other.samples {
            self.sample(s);
        }
        if let Json::Obj(items) = other.extra {
            for (k, v) in items {
                match (&v, self.extra.get(&k)) {
                    (Json::Int(a), Some(Json::Int(b))) => {
                        let merged = if k.starts_with("max_") { (*a).max(*b) } else { *a + *b };
                        self.extra.put(&k, Json::Int(merged));
                    }
                    (_, None) => self.extra.put(&k, v),
                    _ => {}
                }
            }
        }
        self.violation_count += other.violation_count;
        for v in other.violations {
            if self.violations.len() < MAX_KEPT_VIOLATIONS
                && !self.violations.iter().any(|x| x.signature == v.signature)
            {
                self.violations.push(v);
            }
        }
        self.inconclusive.extend(other.inconclusive);
        for a in other.assumptions {
            if !self.assumptions.contains(&a) {
                self.assumptions.push(a);
            }
        }
    }

    pub fn distinct_total(&self) -> u64 {
        self.distinct.len() as u64 + self.distinct_extra
    }
}

// ---------------------------------------------------------------- known findings

pub struct KnownFindings {
    /// (property, signature, text)
    pub open: Vec<(String, String, String)>,
}

impl KnownFindings {
    pub fn load(verif_dir: &Path) -> KnownFindings {
        let mut open = Vec::new();
        if let Ok(text) = std::fs::read_to_string(verif_dir.join("known_findings.txt")) {
            for line in text.lines() {
                let line = line.trim();
                if let Some(rest) = line.strip_prefix("open:") {
                    let mut property = String::new();
                    let mut signature = String::new();
                    let mut words = Vec::new();
                    for w in rest.split_whitespace() {
                        if let Some(p) = w.strip_prefix("property=") {
                            if property.is_empty() {
                                property = p.to_string();
                                continue;
                            }
                        }
                        if let Some(s) = w.strip_prefix("signature=") {
                            if signature.is_empty() {
                                signature = s.to_string();
                                continue;
                            }
                        }
                        words.push(w);
                    }
                    if !property.is_empty() && !signature.is_empty() {
                        open.push((property, signature, words.join(" ")));
                    }
                }
            }
        }
        KnownFindings { open }
    }

    pub fn find(&self, property: &str, signature: &str) -> Option<&str> {
        self.open
            .iter()
            .find(|(p, s, _)| p == property && s == signature)
            .map(|(_, _, t)| t.as_str())
    }
}

// ---------------------------------------------------------------- finishing a run

/// Writes the evidence file and replay files, prints the verdict lines and returns the
/// process exit code: 0 held, 1 violated, 2 inconclusive.
pub fn finish(ctx: &Ctx, mut report: Report) -> i32 {
    let known = KnownFindings::load(&ctx.verif_dir);
    let mut unlisted: Vec<(Violation, PathBuf)> = Vec::new();
    let mut listed = 0u64;
    let replay_dir = ctx.verif_dir.join("replays");
    let _ = std::fs::create_dir_all(&replay_dir);

    // A signature seen in a truncated list still counts: violation_count is kept separately.
    let violations = std::mem::take(&mut report.violations);
    for (n, v) in violations.iter().enumerate() {
        if let Some(text) = known.find(&ctx.id, &v.signature) {
            println!("KNOWN-FINDING: property={} {} [{}]", ctx.id, text, v.signature);
            listed += 1;
            continue;
        }
        let path = replay_dir.join(format!("{}-{}-{}-{}.json", ctx.id, ctx.tier.name(), ctx.seed, n));
        let doc = Json::obj()
            .set("property", Json::str(ctx.id.clone()))
            .set("tier", Json::str(ctx.tier.name()))
            .set("seed", Json::Int(ctx.seed as i128))
            .set("profile", Json::str(Ctx::profile()))
            .set("signature", Json::str(v.signature.clone()))
            .set("what", Json::str(v.what.clone()))
            .set("case", v.case.clone());
        let _ = std::fs::write(&path, doc.to_string_pretty());
        unlisted.push((v.clone(), path));
    }

    let verdict = if !unlisted.is_empty() {
        "violated"
    } else if !report.inconclusive.is_empty() {
        "inconclusive"
    } else {
        "held"
    };

    // evidence
    let mut coverage = Json::obj()
        .set("evaluations", Json::Int(report.evaluations as i128))
        .set("distinct_nontrivial", Json::Int(report.distinct_total() as i128))
        .set("rule", Json::str(report.rule.clone()))
        .set("samples", Json::Arr(report.samples.clone()));
    if let Some(e) = report.exhaustive {
        coverage.put("exhaustive", Json::Bool(e));
    }
    if let Json::Obj(items) = &report.extra {
        for (k, v) in items {
            coverage.put(k, v.clone());
        }
    }
    let evidence = Json::obj()
        .set("property_id", Json::str(ctx.id.clone()))
        .set("tier", Json::str(ctx.tier.name()))
        .set("seed", Json::Int(ctx.seed as i128))
        .set("level", Json::str("exploration"))
        .set("coverage", coverage)
        .set("assumptions", Json::strs(report.assumptions.clone()))
        .set("wall_s", Json::Num((ctx.elapsed() * 1000.0).round() / 1000.0))
        .set("violations", Json::Int(unlisted.len() as i128))
        .set("violating_executions", Json::Int(report.violation_count as i128))
        .set("known_findings_matched", Json::Int(listed as i128))
        .set("verdict", Json::str(verdict))
        .set("inconclusive_reasons", Json::strs(report.inconclusive.clone()))
        .set("profile", Json::str(Ctx::profile()))
        .set(
            "violation_signatures",
            Json::strs(unlisted.iter().map(|(v, _)| v.signature.clone())),
        );
    let evidence_dir = ctx.verif_dir.join("evidence");
    let _ = std::fs::create_dir_all(&evidence_dir);
    let evidence_path = std::env::var("VERIF_EVIDENCE_FILE")
        .map(PathBuf::from)
        .unwrap_or_else(|_| evidence_dir.join(format!("{}.json", ctx.id)));
    if let Err(e) = std::fs::write(&evidence_path, evidence.to_string_pretty()) {
        eprintln!("cannot write evidence {}: {}", evidence_path.display(), e);
    }

    println!(
        "SUMMARY property={} tier={} seed={} profile={} evaluations={} distinct={} violating_executions={} wall_s={:.1}",
        ctx.id,
        ctx.tier.name(),
        ctx.seed,
        Ctx::profile(),
        report.evaluations,
        report.distinct_total(),
        report.violation_count,
        ctx.elapsed()
    );
    for (v, path) in &unlisted {
        println!("  violation: [{}] {}", v.signature, v.what);
        println!("VIOLATION property={} replay={}", ctx.id, path.display());
    }
    match verdict {
        "violated" => 1,
        "inconclusive" => {
            for r in &report.inconclusive {
                println!("INCONCLUSIVE property={} reason={}", ctx.id, r);
            }
            2
        }
        _ => {
            println!("HELD property={} (on everything explored)", ctx.id);
            0
        }
    }
}
