//! Small self-contained utilities: PRNG, hashing, parallel drivers, panic capture.

use std::cell::{Cell, RefCell};
use std::panic::{catch_unwind, AssertUnwindSafe};
use std::sync::atomic::{AtomicUsize, Ordering};
use std::sync::Once;

// ---------------------------------------------------------------- hashing / PRNG

#[inline]
pub fn mix64(mut z: u64) -> u64 {
    z = z.wrapping_add(0x9E37_79B9_7F4A_7C15);
    z = (z ^ (z >> 30)).wrapping_mul(0xBF58_476D_1CE4_E5B9);
    z = (z ^ (z >> 27)).wrapping_mul(0x94D0_49BB_1331_11EB);
    z ^ (z >> 31)
}

#[inline]
pub fn mix2(a: u64, b: u64) -> u64 {
    mix64(mix64(a) ^ b.rotate_left(23).wrapping_mul(0x9FB2_1C65_1E98_DF25))
}

pub fn hash_bytes(bytes: &[u8]) -> u64 {
    let mut h = 0xcbf2_9ce4_8422_2325u64;
    for chunk in bytes.chunks(8) {
        let mut w = 0u64;
        for (i, b) in chunk.iter().enumerate() {
            w |= (*b as u64) << (8 * i);
        }
        h = mix2(h, w ^ (chunk.len() as u64) << 56);
    }
    mix2(h, bytes.len() as u64)
}

pub fn hash_str(s: &str) -> u64 {
    hash_bytes(s.as_bytes())
}

/// xoshiro256** seeded through SplitMix64.
#[derive(Clone, Debug)]
pub struct Rng {
    s: [u64; 4],
}

impl Rng {
    pub fn new(seed: u64) -> Rng {
        let mut x = seed;
        let mut s = [0u64; 4];
        for v in s.iter_mut() {
            x = x.wrapping_add(0x9E37_79B9_7F4A_7C15);
            *v = mix64(x);
        }
        if s == [0; 4] {
            s[0] = 1;
        }
        Rng { s }
    }

    /// Independent stream for (seed, label, index).
    pub fn derive(seed: u64, label: &str, index: u64) -> Rng {
        Rng::new(mix2(mix2(seed, hash_str(label)), index))
    }

    #[inline]
    pub fn next_u64(&mut self) -> u64 {
        let result = self.s[1].wrapping_mul(5).rotate_left(7).wrapping_mul(9);
        let t = self.s[1] << 17;
        self.s[2] ^= self.s[0];
        self.s[3] ^= self.s[1];
        self.s[1] ^= self.s[2];
        self.s[0] ^= self.s[3];
        self.s[2] ^= t;
        self.s[3] = self.s[3].rotate_left(45);
        result
    }

    /// Uniform in 0..n (n > 0).
    #[inline]
    pub fn below(&mut self, n: u64) -> u64 {
        debug_assert!(n > 0);
        ((self.next_u64() as u128 * n as u128) >> 64) as u64
    }

    #[inline]
    pub fn usize_below(&mut self, n: usize) -> usize {
        self.below(n as u64) as usize
    }

    /// Uniform in lo..=hi.
    pub fn range(&mut self, lo: usize, hi: usize) -> usize {
        lo + self.usize_below(hi - lo + 1)
    }

    pub fn chance(&mut self, num: u64, den: u64) -> bool {
        self.below(den) < num
    }

    pub fn f64(&mut self) -> f64 {
        (self.next_u64() >> 11) as f64 / (1u64 << 53) as f64
    }

    pub fn shuffle<T>(&mut self, v: &mut [T]) {
        for i in (1..v.len()).rev() {
            let j = self.usize_below(i + 1);
            v.swap(i, j);
        }
    }

    pub fn pick<'a, T>(&mut self, v: &'a [T]) -> &'a T {
        &v[self.usize_below(v.len())]
    }

    /// k distinct values from 0..n, in random order.
    pub fn sample(&mut self, n: usize, k: usize) -> Vec<usize> {
        assert!(k <= n);
        if k * 3 > n {
            let mut all: Vec<usize> = (0..n).collect();
            self.shuffle(&mut all);
            all.truncate(k);
            all
        } else {
            let mut out: Vec<usize> = Vec::with_capacity(k);
            while out.len() < k {
                let x = self.usize_below(n);
                if !out.contains(&x) {
                    out.push(x);
                }
            }
            out
        }
    }
}

// ---------------------------------------------------------------- parallel drivers

pub fn threads() -> usize {
    if let Ok(v) = std::env::var("VERIF_THREADS") {
        if let Ok(n) = v.parse::<usize>() {
            if n >= 1 {
                return n;
            }
        }
    }
    std::thread::available_parallelism().map(|n| n.get()).unwrap_or(4)
}

/// Runs `body(state, index)` for every index in 0..n on a pool of worker threads with
/// dynamic chunked scheduling. Each worker owns one state made by `init(worker_id)`;
/// the states are returned for merging. A panic in a worker propagates.
pub fn par_run<T, I, B>(n: usize, chunk: usize, init: I, body: B) -> Vec<T>
where
    T: Send,
    I: Fn(usize) -> T + Sync,
    B: Fn(&mut T, usize) + Sync,
{
    par_run_map(n, chunk, init, body, |t| t)
}

/// Like `par_run`, but the worker state may be thread-bound (e.g. hold an `Rc` shared with
/// a hook sink); `finish` turns it into the sendable result on the worker's own thread.
pub fn par_run_map<T, R, I, B, F>(n: usize, chunk: usize, init: I, body: B, finish: F) -> Vec<R>
where
    R: Send,
    I: Fn(usize) -> T + Sync,
    B: Fn(&mut T, usize) + Sync,
    F: Fn(T) -> R + Sync,
{
    let workers = threads().min(n.max(1));
    let next = AtomicUsize::new(0);
    let chunk = chunk.max(1);
    std::thread::scope(|scope| {
        let mut handles = Vec::new();
        for w in 0..workers {
            let next = &next;
            let init = &init;
            let body = &body;
            let finish = &finish;
            handles.push(
                std::thread::Builder::new()
                    .stack_size(16 << 20)
                    .spawn_scoped(scope, move || {
                        let mut state = init(w);
                        loop {
                            let start = next.fetch_add(chunk, Ordering::Relaxed);
                            if start >= n {
                                break;
                            }
                            let end = (start + chunk).min(n);
                            for i in start..end {
                                body(&mut state, i);
                            }
                        }
                        finish(state)
                    })
                    .expect("spawn worker"),
            );
        }
        handles
            .into_iter()
            .map(|h| match h.join() {
                Ok(v) => v,
                Err(e) => std::panic::resume_unwind(e),
            })
            .collect()
    })
}

// ---------------------------------------------------------------- panic capture

thread_local! {
    static QUIET: Cell<bool> = const { Cell::new(false) };
    static LAST_PANIC: RefCell<Option<String>> = const { RefCell::new(None) };
}

static HOOK: Once = Once::new();

/// Installs a process-wide panic hook which records `file:line: message` in a
/// thread-local and stays silent while a `catch` call is active on that thread.
pub fn install_panic_recorder() {
    HOOK.call_once(|| {
        let default = std::panic::take_hook();
        std::panic::set_hook(Box::new(move |info| {
            let msg = if let Some(s) = info.payload().downcast_ref::<&str>() {
                s.to_string()
            } else if let Some(s) = info.payload().downcast_ref::<String>() {
                s.clone()
            } else {
                "<non-string panic payload>".to_string()
            };
            let loc = info
                .location()
                .map(|l| format!("{}:{}", l.file(), l.line()))
                .unwrap_or_else(|| "<unknown>".to_string());
            LAST_PANIC.with(|p| *p.borrow_mut() = Some(format!("{}: {}", loc, msg)));
            if !QUIET.with(|q| q.get()) {
                default(info);
            }
        }));
    });
}

/// Runs `f`, converting a panic into `Err("file:line: message")`.
pub fn catch<T>(f: impl FnOnce() -> T) -> Result<T, String> {
    install_panic_recorder();
    let prev = QUIET.with(|q| q.replace(true));
    LAST_PANIC.with(|p| *p.borrow_mut() = None);
    let r = catch_unwind(AssertUnwindSafe(f));
    QUIET.with(|q| q.set(prev));
    match r {
        Ok(v) => Ok(v),
        Err(_) => Err(LAST_PANIC
            .with(|p| p.borrow_mut().take())
            .unwrap_or_else(|| "<panic without recorded message>".to_string())),
    }
}

/// The part of a recorded panic that identifies the site (`file:line`).
pub fn panic_site(recorded: &str) -> String {
    let mut parts = recorded.splitn(3, ':');
    match (parts.next(), parts.next()) {
        (Some(f), Some(l)) => format!("{}:{}", f, l),
        _ => recorded.to_string(),
    }
}

// ---------------------------------------------------------------- misc

/// Binomial coefficient (small arguments).
pub fn choose(n: u64, k: u64) -> u64 {
    if k > n {
        return 0;
    }
    let k = k.min(n - k);
    let mut r: u128 = 1;
    for i in 0..k {
        r = r * (n - i) as u128 / (i + 1) as u128;
    }
    r as u64
}

/// Calls `f` with every k-subset of 0..n in lexicographic order.
pub fn for_each_subset(n: usize, k: usize, mut f: impl FnMut(&[usize])) {
    if k > n {
        return;
    }
    let mut idx: Vec<usize> = (0..k).collect();
    loop {
        f(&idx);
        let mut i = k;
        while i > 0 && idx[i - 1] == i - 1 + n - k {
            i -= 1;
        }
        if i == 0 {
            return;
        }
        idx[i - 1] += 1;
        for j in i..k {
            idx[j] = idx[j - 1] + 1;
        }
    }
}

/// The `index`-th permutation (factorial number system) of `items`.
pub fn nth_permutation<T: Copy>(items: &[T], mut index: u64) -> Vec<T> {
    let mut pool: Vec<T> = items.to_vec();
    let mut out = Vec::with_capacity(items.len());
    let mut fact: u64 = (1..=items.len() as u64).product();
    for n in (1..=items.len() as u64).rev() {
        fact /= n;
        let i = (index / fact) as usize;
        index %= fact;
        out.push(pool.remove(i));
    }
    out
}

#[cfg(test)]
mod tests {
    use super::*;

    #[test]
    fn subsets_count() {
        let mut c = 0;
        for_each_subset(7, 3, |_| c += 1);
        assert_eq!(c, 35);
        let mut c = 0;
        for_each_subset(5, 5, |_| c += 1);
        assert_eq!(c, 1);
        let mut c = 0;
        for_each_subset(5, 0, |_| c += 1);
        assert_eq!(c, 1);
        assert_eq!(choose(52, 7), 133_784_560);
    }

    #[test]
    fn permutations_distinct() {
        let items = [0u8, 1, 2, 3];
        let mut seen = std::collections::HashSet::new();
        for i in 0..24 {
            seen.insert(nth_permutation(&items, i));
        }
        assert_eq!(seen.len(), 24);
    }
}
