//! R5: arithmetic on (turn index, river index) positions over the 49 unseen cards.

pub const POSITIONS: usize = 1176;
/// The end marker (48,49): one past the last position (47,48).
pub const TERMINAL: (u8, u8) = (48, 49);

/// A real position: turn < river <= 48.
pub fn is_position(p: (u8, u8)) -> bool {
    p.0 < p.1 && p.1 <= 48
}

/// Linear index of a position in lexicographic order; the terminal maps to 1176.
pub fn linear(p: (u8, u8)) -> usize {
    if p == TERMINAL {
        return POSITIONS;
    }
    debug_assert!(is_position(p));
    let t = p.0 as usize;
    let r = p.1 as usize;
    // rows 0..t have 48, 47, .. entries
    let before: usize = (0..t).map(|i| 48 - i).sum();
    before + (r - t - 1)
}

pub fn from_linear(i: usize) -> (u8, u8) {
    if i >= POSITIONS {
        return TERMINAL;
    }
    let mut t = 0usize;
    let mut rest = i;
    loop {
        let row = 48 - t;
        if rest < row {
            return (t as u8, (t + 1 + rest) as u8);
        }
        rest -= row;
        t += 1;
    }
}

pub fn successor(p: (u8, u8)) -> (u8, u8) {
    from_linear(linear(p) + 1)
}

pub fn all_positions() -> Vec<(u8, u8)> {
    (0..POSITIONS).map(from_linear).collect()
}

#[cfg(test)]
mod tests {
    use super::*;

    #[test]
    fn bijection() {
        let mut n = 0;
        for t in 0..48u8 {
            for r in t + 1..=48u8 {
                assert_eq!(linear((t, r)), n);
                assert_eq!(from_linear(n), (t, r));
                n += 1;
            }
        }
        assert_eq!(n, POSITIONS);
        assert_eq!(linear(TERMINAL), POSITIONS);
        assert_eq!(successor((47, 48)), TERMINAL);
        assert_eq!(successor((0, 48)), (1, 2));
    }
}
