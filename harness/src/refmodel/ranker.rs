//! R1: naive five-card ranker, class table 1..=7462, best-of-21 seven-card evaluation.

use std::sync::OnceLock;

pub const CATEGORY_NAMES: [&str; 9] = [
    "HighCard",
    "Pair",
    "TwoPair",
    "Trips",
    "Straight",
    "Flush",
    "FullHouse",
    "Quads",
    "StraightFlush",
];

/// Strength of a card id's rank: deuce = 2 .. ace = 14.
#[inline]
pub fn strength(id: u8) -> u8 {
    14 - id / 4
}

/// Comparison key of five ranks (2..=14) with a flush flag: larger key = stronger hand.
/// Layout: category << 20 | up to five tie-break ranks as nibbles, most significant first.
pub fn key5_ranks(ranks: [u8; 5], flush: bool) -> u32 {
    let mut count = [0u8; 15];
    for r in ranks {
        count[r as usize] += 1;
    }
    // (count, rank) groups sorted by count desc, then rank desc
    let mut groups = [(0u8, 0u8); 5];
    let mut distinct = 0usize;
    let mut r = 14u8;
    while r >= 2 {
        if count[r as usize] > 0 {
            groups[distinct] = (count[r as usize], r);
            distinct += 1;
        }
        r -= 1;
    }
    // insertion sort by count desc (stable: ranks stay descending inside equal counts)
    for i in 1..distinct {
        let mut j = i;
        while j > 0 && groups[j - 1].0 < groups[j].0 {
            groups.swap(j - 1, j);
            j -= 1;
        }
    }

    let mut straight_high = 0u8;
    if distinct == 5 {
        let hi = groups[0].1;
        let lo = groups[4].1;
        if hi - lo == 4 {
            straight_high = hi;
        } else if hi == 14 && groups[1].1 == 5 && lo == 2 {
            // wheel: A-5-4-3-2 plays as five high
            straight_high = 5;
        }
    }

    let pack = |cat: u32, n: usize| -> u32 {
        let mut k = cat << 20;
        for (i, g) in groups.iter().take(n).enumerate() {
            k |= (g.1 as u32) << (16 - 4 * i);
        }
        k
    };

    if straight_high > 0 && flush {
        return (8 << 20) | (straight_high as u32) << 16;
    }
    if groups[0].0 == 4 {
        return pack(7, 2);
    }
    if groups[0].0 == 3 && groups[1].0 == 2 {
        return pack(6, 2);
    }
    if flush {
        return pack(5, 5);
    }
    if straight_high > 0 {
        return (4 << 20) | (straight_high as u32) << 16;
    }
    if groups[0].0 == 3 {
        return pack(3, 3);
    }
    if groups[0].0 == 2 && groups[1].0 == 2 {
        return pack(2, 3);
    }
    if groups[0].0 == 2 {
        return pack(1, 4);
    }
    pack(0, 5)
}

/// Key of five distinct card ids.
#[inline]
pub fn key5(cards: [u8; 5]) -> u32 {
    let flush = cards.iter().all(|c| c % 4 == cards[0] % 4);
    key5_ranks(
        [
            strength(cards[0]),
            strength(cards[1]),
            strength(cards[2]),
            strength(cards[3]),
            strength(cards[4]),
        ],
        flush,
    )
}

const SUBSETS_7_5: [[usize; 5]; 21] = {
    let mut out = [[0usize; 5]; 21];
    let mut n = 0;
    let mut a = 0;
    while a < 7 {
        let mut b = a + 1;
        while b < 7 {
            // leave out a and b
            let mut k = 0;
            let mut i = 0;
            while i < 7 {
                if i != a && i != b {
                    out[n][k] = i;
                    k += 1;
                }
                i += 1;
            }
            n += 1;
            b += 1;
        }
        a += 1;
    }
    out
};

/// Key of the best five-card hand among seven distinct card ids.
pub fn best7(cards: &[u8; 7]) -> u32 {
    let mut best = 0u32;
    for s in SUBSETS_7_5.iter() {
        let k = key5([cards[s[0]], cards[s[1]], cards[s[2]], cards[s[3]], cards[s[4]]]);
        if k > best {
            best = k;
        }
    }
    best
}

#[inline]
pub fn category(key: u32) -> usize {
    (key >> 20) as usize
}

pub fn category_name(key: u32) -> &'static str {
    CATEGORY_NAMES[category(key)]
}

/// All distinct five-card keys, strongest first; class = position + 1.
pub struct ClassTable {
    keys_desc: Vec<u32>,
}

impl ClassTable {
    fn build() -> ClassTable {
        let mut keys: Vec<u32> = Vec::new();
        // all multisets of five ranks with multiplicity <= 4
        let mut r = [2u8; 5];
        fn rec(pos: usize, min: u8, r: &mut [u8; 5], keys: &mut Vec<u32>) {
            if pos == 5 {
                let mut count = [0u8; 15];
                for x in r.iter() {
                    count[*x as usize] += 1;
                }
                if count.iter().any(|c| *c > 4) {
                    return;
                }
                keys.push(key5_ranks(*r, false));
                if count.iter().all(|c| *c <= 1) {
                    keys.push(key5_ranks(*r, true));
                }
                return;
            }
            for v in min..=14 {
                r[pos] = v;
                rec(pos + 1, v, r, keys);
            }
        }
        rec(0, 2, &mut r, &mut keys);
        keys.sort_unstable_by(|a, b| b.cmp(a));
        keys.dedup();
        ClassTable { keys_desc: keys }
    }

    pub fn get() -> &'static ClassTable {
        static TABLE: OnceLock<ClassTable> = OnceLock::new();
        TABLE.get_or_init(ClassTable::build)
    }

    pub fn len(&self) -> usize {
        self.keys_desc.len()
    }

    /// 1 = royal flush .. 7462 = 7-5-4-3-2 unsuited.
    #[inline]
    pub fn class_of(&self, key: u32) -> u16 {
        match self.keys_desc.binary_search_by(|probe| key.cmp(probe)) {
            Ok(i) => (i + 1) as u16,
            Err(_) => 0,
        }
    }

    pub fn key_of_class(&self, class: u16) -> u32 {
        self.keys_desc[class as usize - 1]
    }
}

/// Class of the best hand in seven cards.
#[inline]
pub fn class7(cards: &[u8; 7]) -> u16 {
    ClassTable::get().class_of(best7(cards))
}

/// Fixed facts about the standard numbering that the oracle must reproduce before
/// any verdict is drawn from it. Returns a description of the first failure.
pub fn self_check() -> Result<(), String> {
    use crate::conv::parse_cards_text;
    let t = ClassTable::get();
    if t.len() != 7462 {
        return Err(format!("class table has {} classes, expected 7462", t.len()));
    }
    let five = |s: &str| -> u16 {
        let v = parse_cards_text(s).expect("self-check hand");
        t.class_of(key5([v[0], v[1], v[2], v[3], v[4]]))
    };
    let expect: [(&str, u16); 20] = [
        ("AsKsQsJsTs", 1),
        ("5h4h3h2hAh", 10),
        ("AsAhAdAcKs", 11),
        ("2s2h2d2c3s", 166),
        ("AsAhAdKsKh", 167),
        ("2s2h2d3s3h", 322),
        ("AsKsQsJs9s", 323),
        ("7s5s4s3s2s", 1599),
        ("AsKhQdJcTs", 1600),
        ("5s4h3d2cAs", 1609),
        ("AsAhAdKsQh", 1610),
        ("2s2h2d4s3h", 2467),
        ("AsAhKsKhQd", 2468),
        ("3s3h2s2h4d", 3325),
        ("AsAhKsQhJd", 3326),
        ("2s2h5s4h3d", 6185),
        ("AsKhQdJc9s", 6186),
        ("7s5h4d3c2s", 7462),
        ("KsQsJsTs9s", 2),
        ("6s5s4s3s2s", 9),
    ];
    for (hand, class) in expect {
        let got = five(hand);
        if got != class {
            return Err(format!("oracle ranks {} as class {}, expected {}", hand, got, class));
        }
    }
    // seven-card spot checks: best five must be found among the seven
    let seven = |s: &str| -> u16 {
        let v = parse_cards_text(s).expect("self-check hand");
        class7(&[v[0], v[1], v[2], v[3], v[4], v[5], v[6]])
    };
    let expect7: [(&str, u16); 6] = [
        ("AsKsQsJsTs2h2d", 1),
        ("As2s3s4s5sKdKh", 10),
        ("2s2h2d2c3s3h3d", 166),
        ("7s5h4d3c2s8h9d", 7414 - 0), // 9-8-7-5-4 high card; checked structurally below
        ("AsAhAdKsKhKdQc", 167),
        ("5s4h3d2cAsAhAd", 1609),
    ];
    for (i, (hand, class)) in expect7.iter().enumerate() {
        let got = seven(hand);
        if i == 3 {
            // 9-8-7-5-4 unsuited is a high-card hand; its exact class is derived, not pinned
            if !(6186..=7462).contains(&got) {
                return Err(format!("oracle ranks {} as class {}, expected a high-card class", hand, got));
            }
            continue;
        }
        if got != *class {
            return Err(format!("oracle ranks {} as class {}, expected {}", hand, got, class));
        }
    }
    // category sizes of the 7462 classes
    let mut per_cat = [0usize; 9];
    for c in 1..=7462u16 {
        per_cat[category(t.key_of_class(c))] += 1;
    }
    if per_cat != [1277, 2860, 858, 858, 10, 1277, 156, 156, 10] {
        return Err(format!("classes per category {:?}", per_cat));
    }
    Ok(())
}

/// Published frequencies of the nine categories over all C(52,7) seven-card sets,
/// index = category number (0 = high card .. 8 = straight flush).
pub const SEVEN_CARD_CATEGORY_FREQ: [u64; 9] = [
    23_294_460, 58_627_800, 31_433_400, 6_461_620, 6_180_020, 4_047_644, 3_473_184, 224_848,
    41_584,
];

#[cfg(test)]
mod tests {
    use super::*;

    #[test]
    fn oracle_self_check() {
        self_check().unwrap();
    }
}
