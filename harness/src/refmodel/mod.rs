//! Reference models (oracles). Written from the property statements, sharing no
//! code with espada; they work on plain card ids (see `conv`).

pub mod enumerate;
pub mod notation;
pub mod ranker;
pub mod scope;
pub mod split;
