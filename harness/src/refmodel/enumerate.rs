//! R3: naive flop enumerator. Nested loops over unordered turn/river pairs of the 49
//! unseen cards and the cartesian product of the ranges, a 52-bit mask for distinctness.

use crate::conv::{Combos, Pid};
use crate::util::mix2;

#[derive(Clone, Debug)]
pub struct Config {
    pub flop: [u8; 3],
    pub ranges: Vec<Combos>,
}

impl Config {
    pub fn describe(&self) -> String {
        format!(
            "flop={} ranges=[{}]",
            crate::conv::cards_text(&self.flop),
            self.ranges
                .iter()
                .map(|r| crate::conv::combos_text(r))
                .collect::<Vec<_>>()
                .join(" | ")
        )
    }

    /// Product of the range sizes (the odometer space per position).
    pub fn product(&self) -> u128 {
        self.ranges.iter().map(|r| r.len() as u128).product()
    }
}

/// The 49 unseen cards in id order (ace to deuce, spade heart diamond club).
pub fn deck49(flop: &[u8; 3]) -> Vec<u8> {
    (0..52u8).filter(|c| !flop.contains(c)).collect()
}

/// Order-independent 128-bit fingerprint contribution of one deal.
#[inline]
pub fn deal_hash(turn: u8, river: u8, combos: &[Pid]) -> (u64, u64) {
    let (lo, hi) = if turn <= river { (turn, river) } else { (river, turn) };
    let mut a = mix2(0x1234_5678_9abc_def0, (lo as u64) << 8 | hi as u64);
    let mut b = mix2(0x0fed_cba9_8765_4321, (hi as u64) << 8 | lo as u64);
    for (i, p) in combos.iter().enumerate() {
        let w = (i as u64) << 16 | (p.0 as u64) << 8 | p.1 as u64;
        a = mix2(a, w);
        b = mix2(b, w ^ 0x5555_5555);
    }
    (a, b)
}

#[derive(Clone, Copy, Debug, Default, PartialEq, Eq)]
pub struct Bucket {
    pub count: u64,
    pub h1: u64,
    pub h2: u64,
}

impl Bucket {
    #[inline]
    pub fn add(&mut self, h: (u64, u64)) {
        self.count += 1;
        self.h1 = self.h1.wrapping_add(h.0);
        self.h2 = self.h2.wrapping_add(h.1);
    }

    pub fn merge(&mut self, o: &Bucket) {
        self.count += o.count;
        self.h1 = self.h1.wrapping_add(o.h1);
        self.h2 = self.h2.wrapping_add(o.h2);
    }
}

/// Calls `f(combos in player order, weight product in f64)` for every legal deal at one
/// board position (turn and river given as card ids).
pub fn deals_at(cfg: &Config, turn: u8, river: u8, f: &mut dyn FnMut(&[Pid], f64)) {
    let mut mask: u64 = 0;
    for c in cfg.flop {
        mask |= 1 << c;
    }
    mask |= 1 << turn;
    mask |= 1 << river;
    let mut chosen: Vec<Pid> = Vec::with_capacity(cfg.ranges.len());
    rec(cfg, 0, mask, 1.0, &mut chosen, f);
}

fn rec(
    cfg: &Config,
    player: usize,
    mask: u64,
    weight: f64,
    chosen: &mut Vec<Pid>,
    f: &mut dyn FnMut(&[Pid], f64),
) {
    if player == cfg.ranges.len() {
        f(chosen, weight);
        return;
    }
    for (p, w) in cfg.ranges[player].iter() {
        if p.0 == p.1 {
            continue; // not a real combo: can never be dealt
        }
        let bits = (1u64 << p.0) | (1u64 << p.1);
        if mask & bits != 0 {
            continue;
        }
        chosen.push(*p);
        rec(cfg, player + 1, mask | bits, weight * *w as f64, chosen, f);
        chosen.pop();
    }
}

/// Number of legal deals, counted position by position in order, stopping as soon as `cap` is reached.
pub fn count_capped(cfg: &Config, cap: u64) -> u64 {
    fn rec(cfg: &Config, player: usize, mask: u64, count: &mut u64, cap: u64) {
        if *count >= cap {
            return;
        }
        if player == cfg.ranges.len() {
            *count += 1;
            return;
        }
        for (p, _) in cfg.ranges[player].iter() {
            if p.0 == p.1 {
                continue;
            }
            let bits = (1u64 << p.0) | (1u64 << p.1);
            if mask & bits != 0 {
                continue;
            }
            rec(cfg, player + 1, mask | bits, count, cap);
            if *count >= cap {
                return;
            }
        }
    }
    let deck = deck49(&cfg.flop);
    let mut flop_mask = 0u64;
    for c in cfg.flop {
        flop_mask |= 1 << c;
    }
    let mut count = 0u64;
    for t in 0..48usize {
        for r in t + 1..49usize {
            rec(cfg, 0, flop_mask | (1 << deck[t]) | (1 << deck[r]), &mut count, cap);
            if count >= cap {
                return count;
            }
        }
    }
    count
}

/// Every f32 a correct product of the weights can be: any grouping and order of the
/// multiplications, each rounded to f32 (for up to four factors; None beyond).
pub fn possible_products(ws: &[f32]) -> Option<Vec<u32>> {
    if ws.is_empty() {
        return Some(vec![1.0f32.to_bits()]);
    }
    if ws.len() > 4 {
        return None;
    }
    fn rec(ws: &[f32], mask: u32, memo: &mut Vec<Option<Vec<u32>>>) -> Vec<u32> {
        if let Some(v) = &memo[mask as usize] {
            return v.clone();
        }
        let idx: Vec<usize> = (0..ws.len()).filter(|i| mask & (1 << i) != 0).collect();
        let out: Vec<u32> = if idx.len() == 1 {
            vec![ws[idx[0]].to_bits()]
        } else {
            let mut set: Vec<u32> = Vec::new();
            // proper non-empty sub-masks
            let mut sub = (mask - 1) & mask;
            while sub > 0 {
                let other = mask & !sub;
                if sub < other {
                    let a = rec(ws, sub, memo);
                    let b = rec(ws, other, memo);
                    for x in &a {
                        for y in &b {
                            let p = (f32::from_bits(*x) * f32::from_bits(*y)).to_bits();
                            if !set.contains(&p) {
                                set.push(p);
                            }
                        }
                    }
                }
                sub = (sub - 1) & mask;
            }
            set
        };
        memo[mask as usize] = Some(out.clone());
        out
    }
    let full = (1u32 << ws.len()) - 1;
    let mut memo = vec![None; 1 << ws.len()];
    Some(rec(ws, full, &mut memo))
}

/// Per-position fingerprints of the whole enumeration, index = linear position.
pub fn expected_buckets(cfg: &Config) -> Vec<Bucket> {
    let deck = deck49(&cfg.flop);
    let mut out = vec![Bucket::default(); super::scope::POSITIONS];
    let mut i = 0;
    for t in 0..48usize {
        for r in t + 1..49usize {
            let b = &mut out[i];
            deals_at(cfg, deck[t], deck[r], &mut |combos, _| {
                b.add(deal_hash(deck[t], deck[r], combos));
            });
            i += 1;
        }
    }
    out
}

/// Number of legal deals by direct counting (used for anchors and budgets).
pub fn expected_total(cfg: &Config) -> u64 {
    expected_buckets(cfg).iter().map(|b| b.count).sum()
}

#[cfg(test)]
mod tests {
    use super::*;
    use crate::conv::{all_pairs, parse_cards_text, pid};

    #[test]
    fn anchors() {
        let flop_v = parse_cards_text("2h2d2c").unwrap();
        let flop = [flop_v[0], flop_v[1], flop_v[2]];
        let all: Combos = all_pairs().into_iter().map(|p| (p, 1.0)).collect();
        let cfg = Config { flop, ranges: vec![all.clone()] };
        // one player holding every combo: 1176 boards x C(47,2) hands
        assert_eq!(expected_total(&cfg), 1176 * 1081);
        let asks = parse_cards_text("AsKs").unwrap();
        let cfg = Config { flop, ranges: vec![vec![(pid(asks[0], asks[1]), 1.0)], all] };
        assert_eq!(expected_total(&cfg), 1081 * 990);
    }
}
