//! R2: the standard meaning of range notation.
//!
//! Ranks are indexes 0 = ace .. 12 = deuce ("above" = smaller index).

use crate::conv::{pid, Pid, RANK_CHARS, SUIT_CHARS};
use std::collections::BTreeMap;

#[derive(Clone, Copy, Debug, PartialEq, Eq, Hash, PartialOrd, Ord)]
pub enum Tok {
    /// `RR`
    Pocket(u8),
    /// `XYs`, X above Y
    Suited(u8, u8),
    /// `XYo`, X above Y
    Offsuit(u8, u8),
    /// `RR+`: pair of R or better
    PocketPlus(u8),
    /// `XYs+`: X with kickers from just below X down to Y
    SuitedPlus(u8, u8),
    /// `XYo+`
    OffsuitPlus(u8, u8),
    /// `RR-SS`, R above S, inclusive
    PocketSpan(u8, u8),
    /// `XYs-XZs`, X above Y above Z, inclusive
    SuitedSpan(u8, u8, u8),
    /// `XYo-XZo`
    OffsuitSpan(u8, u8, u8),
    /// `c1c2`: one combo, cards in the written order
    Combo(u8, u8),
}

fn rc(r: u8) -> char {
    RANK_CHARS[r as usize]
}

fn card_str(id: u8) -> String {
    format!("{}{}", RANK_CHARS[(id / 4) as usize], SUIT_CHARS[(id % 4) as usize])
}

pub fn pocket_combos(r: u8) -> Vec<Pid> {
    let mut v = Vec::with_capacity(6);
    for a in 0..4u8 {
        for b in a + 1..4u8 {
            v.push(pid(r * 4 + a, r * 4 + b));
        }
    }
    v
}

pub fn suited_combos(x: u8, y: u8) -> Vec<Pid> {
    (0..4u8).map(|s| pid(x * 4 + s, y * 4 + s)).collect()
}

pub fn offsuit_combos(x: u8, y: u8) -> Vec<Pid> {
    let mut v = Vec::with_capacity(12);
    for a in 0..4u8 {
        for b in 0..4u8 {
            if a != b {
                v.push(pid(x * 4 + a, y * 4 + b));
            }
        }
    }
    v
}

impl Tok {
    pub fn text(&self) -> String {
        match *self {
            Tok::Pocket(r) => format!("{0}{0}", rc(r)),
            Tok::Suited(x, y) => format!("{}{}s", rc(x), rc(y)),
            Tok::Offsuit(x, y) => format!("{}{}o", rc(x), rc(y)),
            Tok::PocketPlus(r) => format!("{0}{0}+", rc(r)),
            Tok::SuitedPlus(x, y) => format!("{}{}s+", rc(x), rc(y)),
            Tok::OffsuitPlus(x, y) => format!("{}{}o+", rc(x), rc(y)),
            Tok::PocketSpan(r, s) => format!("{0}{0}-{1}{1}", rc(r), rc(s)),
            Tok::SuitedSpan(x, y, z) => format!("{0}{1}s-{0}{2}s", rc(x), rc(y), rc(z)),
            Tok::OffsuitSpan(x, y, z) => format!("{0}{1}o-{0}{2}o", rc(x), rc(y), rc(z)),
            Tok::Combo(a, b) => format!("{}{}", card_str(a), card_str(b)),
        }
    }

    /// The combos the token denotes, without repetition.
    pub fn combos(&self) -> Vec<Pid> {
        match *self {
            Tok::Pocket(r) => pocket_combos(r),
            Tok::Suited(x, y) => suited_combos(x, y),
            Tok::Offsuit(x, y) => offsuit_combos(x, y),
            Tok::PocketPlus(r) => (0..=r).flat_map(pocket_combos).collect(),
            Tok::SuitedPlus(x, y) => (x + 1..=y).flat_map(|k| suited_combos(x, k)).collect(),
            Tok::OffsuitPlus(x, y) => (x + 1..=y).flat_map(|k| offsuit_combos(x, k)).collect(),
            Tok::PocketSpan(r, s) => (r..=s).flat_map(pocket_combos).collect(),
            Tok::SuitedSpan(x, y, z) => (y..=z).flat_map(|k| suited_combos(x, k)).collect(),
            Tok::OffsuitSpan(x, y, z) => (y..=z).flat_map(|k| offsuit_combos(x, k)).collect(),
            Tok::Combo(a, b) => vec![pid(a, b)],
        }
    }

    /// Well-formed in the sense used by the checks (see DESIGN C05): high card first,
    /// spans strictly descending, two different cards.
    pub fn well_formed(&self) -> bool {
        match *self {
            Tok::Pocket(r) | Tok::PocketPlus(r) => r < 13,
            Tok::Suited(x, y) | Tok::Offsuit(x, y) | Tok::SuitedPlus(x, y) | Tok::OffsuitPlus(x, y) => {
                x < y && y < 13
            }
            Tok::PocketSpan(r, s) => r < s && s < 13,
            Tok::SuitedSpan(x, y, z) | Tok::OffsuitSpan(x, y, z) => x < y && y < z && z < 13,
            Tok::Combo(a, b) => a != b && a < 52 && b < 52,
        }
    }

    pub fn is_rank_pair_token(&self) -> bool {
        !matches!(self, Tok::Combo(..))
    }

    /// 0 = pocket row, 1 = suited row, 2 = offsuit row, 3 = single combo
    pub fn row_kind(&self) -> u8 {
        match self {
            Tok::Pocket(_) | Tok::PocketPlus(_) | Tok::PocketSpan(..) => 0,
            Tok::Suited(..) | Tok::SuitedPlus(..) | Tok::SuitedSpan(..) => 1,
            Tok::Offsuit(..) | Tok::OffsuitPlus(..) | Tok::OffsuitSpan(..) => 2,
            Tok::Combo(..) => 3,
        }
    }

    /// For rank-pair tokens: (high card or 255 for the pocket row, first cell, last cell)
    /// where a cell is the pocket rank / the kicker rank index.
    pub fn cells(&self) -> Option<(u8, u8, u8)> {
        match *self {
            Tok::Pocket(r) => Some((255, r, r)),
            Tok::PocketPlus(r) => Some((255, 0, r)),
            Tok::PocketSpan(r, s) => Some((255, r, s)),
            Tok::Suited(x, y) | Tok::Offsuit(x, y) => Some((x, y, y)),
            Tok::SuitedPlus(x, y) | Tok::OffsuitPlus(x, y) => Some((x, x + 1, y)),
            Tok::SuitedSpan(x, y, z) | Tok::OffsuitSpan(x, y, z) => Some((x, y, z)),
            Tok::Combo(..) => None,
        }
    }
}

/// Every well-formed token (3 640 by the definition above).
pub fn all_well_formed_tokens() -> Vec<Tok> {
    let mut v = Vec::new();
    for r in 0..13u8 {
        v.push(Tok::Pocket(r));
        v.push(Tok::PocketPlus(r));
        for s in r + 1..13 {
            v.push(Tok::PocketSpan(r, s));
        }
    }
    for x in 0..13u8 {
        for y in x + 1..13 {
            v.push(Tok::Suited(x, y));
            v.push(Tok::Offsuit(x, y));
            v.push(Tok::SuitedPlus(x, y));
            v.push(Tok::OffsuitPlus(x, y));
            for z in y + 1..13 {
                v.push(Tok::SuitedSpan(x, y, z));
                v.push(Tok::OffsuitSpan(x, y, z));
            }
        }
    }
    for a in 0..52u8 {
        for b in 0..52u8 {
            if a != b {
                v.push(Tok::Combo(a, b));
            }
        }
    }
    v
}

fn rank_of(c: char) -> Option<u8> {
    RANK_CHARS.iter().position(|r| *r == c).map(|i| i as u8)
}

fn suit_of(c: char) -> Option<u8> {
    SUIT_CHARS.iter().position(|r| *r == c).map(|i| i as u8)
}

/// Strict reader for one token's body (no weight part). Returns None unless the text
/// is exactly one of the seven shapes and well formed.
pub fn parse_tok_body(body: &str) -> Option<Tok> {
    let c: Vec<char> = body.chars().collect();
    let tok = match c.len() {
        2 => {
            let (a, b) = (rank_of(c[0])?, rank_of(c[1])?);
            if a != b {
                return None;
            }
            Tok::Pocket(a)
        }
        3 => {
            let (a, b) = (rank_of(c[0])?, rank_of(c[1])?);
            match c[2] {
                '+' if a == b => Tok::PocketPlus(a),
                // a single rank pair may be spelled in either rank order: "KAs" denotes AKs
                's' if a != b => Tok::Suited(a.min(b), a.max(b)),
                'o' if a != b => Tok::Offsuit(a.min(b), a.max(b)),
                _ => return None,
            }
        }
        4 => {
            if c[3] == '+' {
                let (a, b) = (rank_of(c[0])?, rank_of(c[1])?);
                match c[2] {
                    's' => Tok::SuitedPlus(a, b),
                    'o' => Tok::OffsuitPlus(a, b),
                    _ => return None,
                }
            } else {
                let a = rank_of(c[0])? * 4 + suit_of(c[1])?;
                let b = rank_of(c[2])? * 4 + suit_of(c[3])?;
                Tok::Combo(a, b)
            }
        }
        5 => {
            if c[2] != '-' {
                return None;
            }
            let (a, a2, b, b2) = (rank_of(c[0])?, rank_of(c[1])?, rank_of(c[3])?, rank_of(c[4])?);
            if a != a2 || b != b2 {
                return None;
            }
            Tok::PocketSpan(a, b)
        }
        7 => {
            if c[3] != '-' || c[2] != c[6] {
                return None;
            }
            let (x, y, x2, z) = (rank_of(c[0])?, rank_of(c[1])?, rank_of(c[4])?, rank_of(c[5])?);
            if x != x2 {
                return None;
            }
            match c[2] {
                's' => Tok::SuitedSpan(x, y, z),
                'o' => Tok::OffsuitSpan(x, y, z),
                _ => return None,
            }
        }
        _ => return None,
    };
    if tok.well_formed() {
        Some(tok)
    } else {
        None
    }
}

/// Strict reader for `body[:weight]`; the weight is the nearest f32 of the literal
/// (a digit 0 or 1 with an optional fraction), 1 when omitted.
pub fn parse_weighted_tok(text: &str) -> Option<(Tok, f32)> {
    match text.split_once(':') {
        None => parse_tok_body(text).map(|t| (t, 1.0)),
        Some((body, lit)) => {
            let tok = parse_tok_body(body)?;
            let b = lit.as_bytes();
            if b.is_empty() || !(b[0] == b'0' || b[0] == b'1') {
                return None;
            }
            if b.len() > 1 {
                if b[1] != b'.' || b.len() < 3 || !b[2..].iter().all(|d| d.is_ascii_digit()) {
                    return None;
                }
            }
            let w: f32 = lit.parse().ok()?;
            Some((tok, w))
        }
    }
}

/// Meaning of a list of weighted tokens: later tokens overwrite earlier ones.
pub fn expand_list(tokens: &[(Tok, f32)]) -> BTreeMap<Pid, f32> {
    let mut map = BTreeMap::new();
    for (tok, w) in tokens {
        for p in tok.combos() {
            map.insert(p, *w);
        }
    }
    map
}

/// Strict reader of a whole formatted range (what espada's `Display` is expected to emit):
/// comma separated well-formed weighted tokens, or the empty string.
pub fn parse_formatted(text: &str) -> Option<Vec<(Tok, f32)>> {
    if text.is_empty() {
        return Some(Vec::new());
    }
    text.split(',').map(parse_weighted_tok).collect()
}

#[cfg(test)]
mod tests {
    use super::*;

    #[test]
    fn counts() {
        let all = all_well_formed_tokens();
        assert_eq!(all.len(), 3640);
        for t in &all {
            assert!(t.well_formed());
            assert_eq!(parse_tok_body(&t.text()), Some(*t), "{}", t.text());
        }
        assert_eq!(Tok::PocketPlus(2).combos().len(), 18);
        assert_eq!(Tok::SuitedPlus(0, 5).combos().len(), 20);
        assert_eq!(Tok::OffsuitSpan(0, 2, 5).combos().len(), 48);
        assert_eq!(Tok::PocketSpan(6, 8).text(), "88-66");
        assert_eq!(Tok::SuitedSpan(0, 2, 5).text(), "AQs-A9s");
        assert_eq!(parse_weighted_tok("QQ+:0.5"), Some((Tok::PocketPlus(2), 0.5)));
        assert_eq!(parse_weighted_tok("QQ+:1.5").map(|t| t.1), Some(1.5));
        assert_eq!(parse_weighted_tok("QQ+:2"), None);
        assert_eq!(parse_weighted_tok("KAs"), Some((Tok::Suited(0, 1), 1.0)));
        assert_eq!(parse_weighted_tok("KAs+"), None);
    }
}
