//! R4: exact split of a range into complete equal-weight rank pairs and leftovers,
//! and the maximal equal-weight runs along each notation row.

use super::notation::{offsuit_combos, pocket_combos, suited_combos};
use crate::conv::Pid;
use std::collections::BTreeMap;

/// (kind, high, kicker): kind 0 = pocket (high == kicker), 1 = suited, 2 = offsuit.
pub type Rp = (u8, u8, u8);

pub fn rp_combos(rp: Rp) -> Vec<Pid> {
    match rp.0 {
        0 => pocket_combos(rp.1),
        1 => suited_combos(rp.1, rp.2),
        _ => offsuit_combos(rp.1, rp.2),
    }
}

pub fn all_rank_pairs() -> Vec<Rp> {
    let mut v = Vec::with_capacity(169);
    for r in 0..13u8 {
        v.push((0, r, r));
    }
    for x in 0..13u8 {
        for y in x + 1..13 {
            v.push((1, x, y));
            v.push((2, x, y));
        }
    }
    v
}

pub fn rp_text(rp: Rp) -> String {
    let c = crate::conv::RANK_CHARS;
    match rp.0 {
        0 => format!("{0}{0}", c[rp.1 as usize]),
        1 => format!("{}{}s", c[rp.1 as usize], c[rp.2 as usize]),
        _ => format!("{}{}o", c[rp.1 as usize], c[rp.2 as usize]),
    }
}

/// The rank pair a real combo belongs to.
pub fn rp_of(p: Pid) -> Rp {
    let (ra, sa, rb, sb) = (p.0 / 4, p.0 % 4, p.1 / 4, p.1 % 4);
    if ra == rb {
        (0, ra, ra)
    } else if sa == sb {
        (1, ra.min(rb), ra.max(rb))
    } else {
        (2, ra.min(rb), ra.max(rb))
    }
}

pub struct Split {
    /// complete rank pairs whose combos all carry the same weight (compared with `==`)
    pub complete: BTreeMap<Rp, f32>,
    /// every other combo with its own weight
    pub leftovers: BTreeMap<Pid, f32>,
}

/// All 169 rank pairs with their combos (computed once).
pub fn rank_pair_table() -> &'static Vec<(Rp, Vec<Pid>)> {
    static TABLE: std::sync::OnceLock<Vec<(Rp, Vec<Pid>)>> = std::sync::OnceLock::new();
    TABLE.get_or_init(|| all_rank_pairs().into_iter().map(|rp| (rp, rp_combos(rp))).collect())
}

pub fn split(range: &BTreeMap<Pid, f32>) -> Split {
    let mut complete = BTreeMap::new();
    let mut leftovers = range.clone();
    for (rp, combos) in rank_pair_table().iter() {
        let rp = *rp;
        let first = match range.get(&combos[0]) {
            Some(w) => *w,
            None => continue,
        };
        if combos.iter().all(|c| range.get(c).is_some_and(|w| *w == first)) {
            complete.insert(rp, first);
            for c in combos {
                leftovers.remove(c);
            }
        }
    }
    Split { complete, leftovers }
}

/// A maximal run of adjacent complete rank pairs of one row with equal weight.
#[derive(Clone, Debug, PartialEq)]
pub struct Run {
    /// 0 pocket, 1 suited, 2 offsuit
    pub kind: u8,
    /// high card (255 for the pocket row)
    pub high: u8,
    pub first: u8,
    pub last: u8,
    pub weight: f32,
}

/// Runs in canonical text order: pockets from aces down, then per high card suited, offsuit.
pub fn runs(complete: &BTreeMap<Rp, f32>) -> Vec<Run> {
    let mut out = Vec::new();
    let row = |kind: u8, high: u8, cells: Vec<u8>, out: &mut Vec<Run>| {
        let mut cur: Option<Run> = None;
        for cell in cells {
            let key: Rp = if kind == 0 { (0, cell, cell) } else { (kind, high, cell) };
            let w = complete.get(&key).copied();
            match (&mut cur, w) {
                (Some(run), Some(w)) if run.weight == w && run.last + 1 == cell => run.last = cell,
                (_, w) => {
                    if let Some(run) = cur.take() {
                        out.push(run);
                    }
                    if let Some(w) = w {
                        cur = Some(Run { kind, high, first: cell, last: cell, weight: w });
                    }
                }
            }
        }
        if let Some(run) = cur.take() {
            out.push(run);
        }
    };
    row(0, 255, (0..13).collect(), &mut out);
    for x in 0..12u8 {
        row(1, x, (x + 1..13).collect(), &mut out);
        row(2, x, (x + 1..13).collect(), &mut out);
    }
    out
}

#[cfg(test)]
mod tests {
    use super::*;

    #[test]
    fn split_basics() {
        let mut m = BTreeMap::new();
        for c in pocket_combos(0) {
            m.insert(c, 1.0);
        }
        for c in pocket_combos(1) {
            m.insert(c, 1.0);
        }
        for c in pocket_combos(3) {
            m.insert(c, 0.5);
        }
        let mut partial = suited_combos(0, 1);
        partial.pop();
        for c in partial {
            m.insert(c, 1.0);
        }
        let s = split(&m);
        assert_eq!(s.complete.len(), 3);
        assert_eq!(s.leftovers.len(), 3);
        let r = runs(&s.complete);
        assert_eq!(r.len(), 2);
        assert_eq!((r[0].first, r[0].last), (0, 1));
        assert_eq!((r[1].first, r[1].last), (3, 3));
        assert_eq!(all_rank_pairs().len(), 169);
        for rp in all_rank_pairs() {
            for c in rp_combos(rp) {
                assert_eq!(rp_of(c), rp);
            }
        }
    }
}
