//! Entry point: `verif check <ID> [--tier quick|thorough] [--seed N]`, `verif replay <path>`,
//! `verif child ...` (internal: crash-isolated case runner).

use verif_harness::checks;
use verif_harness::core::{finish, Ctx, Report, Tier};
use verif_harness::json::Json;

fn usage() -> ! {
    eprintln!("usage: verif check <ID> [--tier quick|thorough] [--seed N]\n       verif replay <path>\n       verif selfcheck");
    std::process::exit(3);
}

fn main() {
    verif_harness::util::install_panic_recorder();
    let args: Vec<String> = std::env::args().collect();
    if args.len() < 2 {
        usage();
    }
    match args[1].as_str() {
        "check" => {
            if args.len() < 3 {
                usage();
            }
            let id = args[2].clone();
            let mut tier = match std::env::var("VERIF_TIER").as_deref() {
                Ok("thorough") => Tier::Thorough,
                _ => Tier::Quick,
            };
            let mut seed: u64 = std::env::var("VERIF_SEED").ok().and_then(|s| s.trim().parse().ok()).unwrap_or(0);
            let mut i = 3;
            while i < args.len() {
                match args[i].as_str() {
                    "--tier" => {
                        i += 1;
                        tier = match args.get(i).map(|s| s.as_str()) {
                            Some("thorough") => Tier::Thorough,
                            Some("quick") => Tier::Quick,
                            _ => usage(),
                        };
                    }
                    "--seed" => {
                        i += 1;
                        seed = args.get(i).and_then(|s| s.parse().ok()).unwrap_or_else(|| usage());
                    }
                    _ => usage(),
                }
                i += 1;
            }
            let ctx = Ctx::new(&id, tier, seed);
            let report = match checks::run(&ctx) {
                Some(r) => r,
                None => {
                    eprintln!("unknown property {}", id);
                    std::process::exit(3);
                }
            };
            std::process::exit(finish(&ctx, report));
        }
        "replay" => {
            if args.len() < 3 {
                usage();
            }
            let text = std::fs::read_to_string(&args[2]).unwrap_or_else(|e| {
                eprintln!("cannot read {}: {}", args[2], e);
                std::process::exit(3);
            });
            let doc = Json::parse(&text).unwrap_or_else(|e| {
                eprintln!("cannot parse {}: {}", args[2], e);
                std::process::exit(3);
            });
            let property = doc.get("property").and_then(|v| v.as_str()).unwrap_or("").to_string();
            let tier = match doc.get("tier").and_then(|v| v.as_str()) {
                Some("thorough") => Tier::Thorough,
                _ => Tier::Quick,
            };
            let seed = doc.get("seed").and_then(|v| v.as_i128()).unwrap_or(0) as u64;
            let case = doc.get("case").cloned().unwrap_or(Json::Null);
            let mut ctx = Ctx::new(&property, tier, seed);
            // a replay never overwrites the evidence of a real run
            let scratch = std::env::temp_dir().join(format!("verif-replay-{}", std::process::id()));
            let _ = std::fs::create_dir_all(&scratch);
            let _ = std::fs::copy(ctx.verif_dir.join("known_findings.txt"), scratch.join("known_findings.txt"));
            ctx.verif_dir = scratch.clone();
            let report: Report = match checks::replay(&property, &case, &ctx) {
                Some(r) => r,
                None => {
                    eprintln!("no replay support for property '{}'", property);
                    std::process::exit(3);
                }
            };
            let reproduced = !report.violations.is_empty();
            let code = finish(&ctx, report);
            let _ = std::fs::remove_dir_all(&scratch);
            if !reproduced {
                println!("NOT-REPRODUCED property={} (the recorded case passes on this tree)", property);
            }
            std::process::exit(code);
        }
        "child" => {
            std::process::exit(checks::child_main(&args[2..]));
        }
        "selfcheck" => {
            match verif_harness::refmodel::ranker::self_check() {
                Ok(()) => println!("oracle self-check ok"),
                Err(e) => {
                    println!("oracle self-check FAILED: {}", e);
                    std::process::exit(2);
                }
            }
        }
        _ => usage(),
    }
}
