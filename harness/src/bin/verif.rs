//! Entry point: `verif check <ID> [--tier quick|thorough] [--seed N]`, `verif replay <path>`,
//! `verif child ...` (internal: crash-isolated case runner).

use verif_harness::checks;
use verif_harness::core::{finish, Ctx, Report, Tier};
use verif_harness::json::Json;

fn usage() -> ! {
    eprintln!("usage: verif check <ID> [--tier quick|thorough] [--seed N]\n       verif replay <path>\n       verif selfcheck");
    std::process::exit(3);
}

/// Runs the check in a child process. If that process is killed by a signal or aborts
/// (stack overflow, allocation failure: events `catch_unwind` cannot see), the cases that were
/// in flight according to its journal are re-run one by one in isolation to name the culprit.
fn supervise(ctx: &Ctx, args: &[String]) -> i32 {
    use std::os::unix::process::ExitStatusExt;
    use verif_harness::child::{self, ChildOutcome};
    let exe = std::env::current_exe().expect("current exe");
    let scratch = child::scratch_dir();
    let journal = scratch.join("journal.txt");
    let _ = std::fs::remove_file(&journal);
    // a wall-clock watchdog around the whole inner run: its firing is inconclusive, never a verdict
    let limit_s: u64 = std::env::var("VERIF_WATCHDOG_S").ok().and_then(|v| v.parse().ok()).unwrap_or(match ctx.tier {
        Tier::Quick => 3600,
        Tier::Thorough => 6 * 3600,
    });
    let spawned = std::process::Command::new(&exe)
        .args(&args[1..])
        .env("VERIF_INNER", "1")
        .env("VERIF_JOURNAL", &journal)
        .env("VERIF_SCRATCH", &scratch)
        .spawn();
    let mut child = match spawned {
        Ok(c) => c,
        Err(e) => {
            println!("INCONCLUSIVE property={} reason=cannot-spawn-inner-process:{}", ctx.id, e);
            let _ = std::fs::remove_dir_all(&scratch);
            return 2;
        }
    };
    let started = std::time::Instant::now();
    let status = loop {
        match child.try_wait() {
            Ok(Some(st)) => break st,
            Ok(None) => {
                if started.elapsed().as_secs() > limit_s {
                    let _ = child.kill();
                    let _ = child.wait();
                    println!("INCONCLUSIVE property={} reason=watchdog-fired-after-{}s", ctx.id, limit_s);
                    let _ = std::fs::remove_dir_all(&scratch);
                    return 2;
                }
                std::thread::sleep(std::time::Duration::from_millis(100));
            }
            Err(e) => {
                println!("INCONCLUSIVE property={} reason=cannot-wait-for-inner-process:{}", ctx.id, e);
                let _ = std::fs::remove_dir_all(&scratch);
                return 2;
            }
        }
    };
    if let Some(code) = status.code() {
        if code == 0 || code == 1 || code == 2 || code == 3 {
            let _ = std::fs::remove_dir_all(&scratch);
            return code;
        }
    }
    // abnormal end
    let (finished, open) = child::journal_read(&journal);
    println!(
        "inner check process ended abnormally (signal {:?}, code {:?}); {} cases finished, {} in flight: re-running those in isolation",
        status.signal(), status.code(), finished, open.len()
    );
    let mut report = Report::new();
    report.evaluations = finished;
    report.distinct_extra = finished;
    report.rule = "fallback after an abnormal end of the monitored process: journal of finished cases; the in-flight cases were re-run in isolated child processes".into();
    for (key, case) in open.iter().take(48) {
        report.evaluations += 1;
        match child::run_case(&exe, &ctx.id, case, 16 << 20, std::time::Duration::from_secs(600)) {
            ChildOutcome::Reported(doc) => child::merge_child_report(&mut report, &doc, ""),
            ChildOutcome::Crashed { signal, code, stack_overflow, stderr_tail } => {
                let kind = if stack_overflow { "stack-overflow".to_string() } else { format!("abort(signal={:?},code={:?})", signal, code) };
                report.violate(
                    format!("{}:{}", key, kind),
                    format!("case {} kills the process: {} [{}]", key, kind, stderr_tail),
                    case.clone(),
                );
            }
            ChildOutcome::Timeout { after_s } => report.inconclusive(format!("isolated re-run of {} timed out after {:.0}s", key, after_s)),
            ChildOutcome::SpawnFailed(e) => report.inconclusive(format!("cannot re-run {}: {}", key, e)),
        }
        report.sample(Json::obj().set("in_flight_case", Json::str(key.clone())));
    }
    if report.violations.is_empty() && report.inconclusive.is_empty() {
        report.inconclusive(format!("the monitored process died (signal {:?}, code {:?}) but no in-flight case reproduces it in isolation", status.signal(), status.code()));
    }
    if report.samples.is_empty() {
        report.sample(Json::obj().set("note", Json::str("no case was in flight")));
    }
    let code = finish(ctx, report);
    let _ = std::fs::remove_dir_all(&scratch);
    code
}

fn main() {
    verif_harness::util::install_panic_recorder();
    let args: Vec<String> = std::env::args().collect();
    if args.len() < 2 {
        usage();
    }
    match args[1].as_str() {
        "check" => {
            if args.len() < 3 {
                usage();
            }
            let id = args[2].clone();
            let mut tier = match std::env::var("VERIF_TIER").as_deref() {
                Ok("thorough") => Tier::Thorough,
                _ => Tier::Quick,
            };
            let mut seed: u64 = std::env::var("VERIF_SEED").ok().and_then(|s| s.trim().parse().ok()).unwrap_or(0);
            let mut i = 3;
            while i < args.len() {
                match args[i].as_str() {
                    "--tier" => {
                        i += 1;
                        tier = match args.get(i).map(|s| s.as_str()) {
                            Some("thorough") => Tier::Thorough,
                            Some("quick") => Tier::Quick,
                            _ => usage(),
                        };
                    }
                    "--seed" => {
                        i += 1;
                        seed = args.get(i).and_then(|s| s.parse().ok()).unwrap_or_else(|| usage());
                    }
                    _ => usage(),
                }
                i += 1;
            }
            let ctx = Ctx::new(&id, tier, seed);
            if std::env::var("VERIF_INNER").is_err() {
                std::process::exit(supervise(&ctx, &args));
            }
            verif_harness::child::journal_open();
            let report = match checks::run(&ctx) {
                Some(r) => r,
                None => {
                    eprintln!("unknown property {}", id);
                    std::process::exit(3);
                }
            };
            std::process::exit(finish(&ctx, report));
        }
        "replay" => {
            if args.len() < 3 {
                usage();
            }
            let text = std::fs::read_to_string(&args[2]).unwrap_or_else(|e| {
                eprintln!("cannot read {}: {}", args[2], e);
                std::process::exit(3);
            });
            let doc = Json::parse(&text).unwrap_or_else(|e| {
                eprintln!("cannot parse {}: {}", args[2], e);
                std::process::exit(3);
            });
            let property = doc.get("property").and_then(|v| v.as_str()).unwrap_or("").to_string();
            let tier = match doc.get("tier").and_then(|v| v.as_str()) {
                Some("thorough") => Tier::Thorough,
                _ => Tier::Quick,
            };
            let seed = doc.get("seed").and_then(|v| v.as_i128()).unwrap_or(0) as u64;
            let case = doc.get("case").cloned().unwrap_or(Json::Null);
            let mut ctx = Ctx::new(&property, tier, seed);
            // a replay never overwrites the evidence of a real run
            let scratch = std::env::temp_dir().join(format!("verif-replay-{}", std::process::id()));
            let _ = std::fs::create_dir_all(&scratch);
            let _ = std::fs::copy(ctx.verif_dir.join("known_findings.txt"), scratch.join("known_findings.txt"));
            ctx.verif_dir = scratch.clone();
            let report: Report = match checks::replay(&property, &case, &ctx) {
                Some(r) => r,
                None => {
                    eprintln!("no replay support for property '{}'", property);
                    std::process::exit(3);
                }
            };
            let reproduced = !report.violations.is_empty();
            let code = finish(&ctx, report);
            let _ = std::fs::remove_dir_all(&scratch);
            if !reproduced {
                println!("NOT-REPRODUCED property={} (the recorded case passes on this tree)", property);
            }
            std::process::exit(code);
        }
        "child" => {
            std::process::exit(checks::child_main(&args[2..]));
        }
        "selfcheck" => {
            match verif_harness::refmodel::ranker::self_check() {
                Ok(()) => println!("oracle self-check ok"),
                Err(e) => {
                    println!("oracle self-check FAILED: {}", e);
                    std::process::exit(2);
                }
            }
        }
        _ => usage(),
    }
}
