fn main() {}
