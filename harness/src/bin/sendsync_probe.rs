//! C15: "evaluators, ranges and showdowns can be moved to and shared between threads".
//! This binary only has to compile: every probe is a `T: Send + Sync` bound.

use espada::card::{Card, Rank, Suit};
use espada::evaluator::{FlopExhaustiveEvaluator, MadeHand, Showdown};
use espada::hand_range::{CardPair, HandRange, HandRangeToken, RankPair};

fn assert_send_sync<T: Send + Sync>(name: &str) {
    println!("Send+Sync: {}", name);
}

fn main() {
    assert_send_sync::<FlopExhaustiveEvaluator>("FlopExhaustiveEvaluator");
    assert_send_sync::<<FlopExhaustiveEvaluator as IntoIterator>::IntoIter>("FlopExhaustiveEvaluatorIterator");
    assert_send_sync::<HandRange>("HandRange");
    assert_send_sync::<Showdown>("Showdown");
    assert_send_sync::<CardPair>("CardPair");
    assert_send_sync::<MadeHand>("MadeHand");
    assert_send_sync::<HandRangeToken>("HandRangeToken");
    assert_send_sync::<RankPair>("RankPair");
    assert_send_sync::<Card>("Card");
    assert_send_sync::<Rank>("Rank");
    assert_send_sync::<Suit>("Suit");
}
