//! C15 threaded workload: every evaluator is drained on its own thread while others run,
//! evaluators/iterators/showdowns are moved and shared between threads, and each sequence
//! is compared with the sequence the same evaluator gives alone. This is the only binary
//! that needs espada's types to be Send + Sync; it is also what runs under Miri and TSan.
//!
//!   verif_threads run  <seed> <quick|thorough>     native
//!   verif_threads small <seed>                     reduced workload (Miri, TSan)

use espada::evaluator::{FlopExhaustiveEvaluator, Showdown};
use espada::hand_range::HandRange;
use std::sync::atomic::{AtomicU64, Ordering};
use std::sync::{mpsc, Arc, Barrier};
use verif_harness::conv::{cid, pid_of, to_hand_range, Combos};
use verif_harness::json::Json;
use verif_harness::refmodel::scope::{from_linear, POSITIONS};
use verif_harness::util::{mix2, Rng};

/// Compact, comparable trace of one showdown (formatting is slow under Miri).
#[derive(Clone, Debug, PartialEq, Eq, Hash)]
struct Key {
    board: [u8; 5],
    players: Vec<(u8, u8, u16, bool)>,
    prob_bits: u32,
    winner_len: u8,
}

fn key(sd: &Showdown) -> Key {
    let b = sd.board();
    Key {
        board: [cid(&b[0]), cid(&b[1]), cid(&b[2]), cid(&b[3]), cid(&b[4])],
        players: sd
            .players()
            .iter()
            .map(|p| {
                let h = pid_of(&p.hole_cards());
                (h.0, h.1, p.hand().power_index(), p.is_winner())
            })
            .collect(),
        prob_bits: sd.probability().to_bits(),
        winner_len: sd.winner_len(),
    }
}

#[derive(Clone)]
struct Job {
    flop: [u8; 3],
    ranges: Arc<Vec<HandRange>>,
    scope: ((u8, u8), (u8, u8)),
}

impl Job {
    /// The non-termination guard (drive.rs) lives in thread-local state: the thread that is going to drain an
    /// evaluator over this job's ranges announces it here (allowance + fresh cycle detector + guard sink).
    fn guard(&self) {
        verif_harness::drive::allow(&self.ranges);
    }

    fn evaluator(&self) -> FlopExhaustiveEvaluator {
        let board = Arc::new(verif_harness::drive::board_of(&self.flop));
        let mut e = FlopExhaustiveEvaluator::new(&board, &self.ranges);
        e.scope(self.scope.0 .0, self.scope.0 .1, self.scope.1 .0, self.scope.1 .1);
        e
    }

    fn solo(&self) -> Vec<Key> {
        self.guard();
        self.evaluator().into_iter().map(|sd| key(&sd)).collect()
    }
}

fn small_range(rng: &mut Rng, cards: &[u8], size: usize) -> Combos {
    verif_harness::workload::clustered_range(rng, cards, size, verif_harness::workload::WeightMode::Family)
}

fn make_jobs(rng: &mut Rng, n: usize, positions: usize, max_combos: usize) -> Vec<Job> {
    let mut jobs = Vec::new();
    // pairs of jobs share one Arc'd range list, as the example's workers do
    let mut shared: Option<(Arc<Vec<HandRange>>, [u8; 3])> = None;
    for i in 0..n {
        let (ranges, flop) = match (&shared, i % 2) {
            (Some(s), 1) => s.clone(),
            _ => {
                let flop = verif_harness::workload::textured_flop(rng, i);
                let cards: Vec<u8> = rng.sample(52, 12).into_iter().map(|c| c as u8).collect();
                let players = 1 + rng.usize_below(3);
                let ranges: Vec<HandRange> = (0..players)
                    .map(|_| {
                        let size = 1 + rng.usize_below(max_combos);
                        to_hand_range(&small_range(rng, &cards, size))
                    })
                    .collect();
                let s = (Arc::new(ranges), flop);
                shared = Some(s.clone());
                s
            }
        };
        let a = rng.usize_below(POSITIONS - positions);
        let b = a + 1 + rng.usize_below(positions);
        jobs.push(Job { flop, ranges, scope: (from_linear(a), from_linear(b)) });
    }
    jobs
}

struct Outcome {
    threads: u64,
    sequences_compared: u64,
    showdowns: u64,
    mismatches: Vec<String>,
    interleavings: std::collections::HashSet<u64>,
    handoffs: u64,
    shared_reads: u64,
}

static TICKET: AtomicU64 = AtomicU64::new(0);

/// One round: every job drained on its own thread, all threads released together.
fn round(jobs: &[Job], solos: &[Vec<Key>], seed: u64, inject: bool, out: &mut Outcome) {
    let n = jobs.len();
    let barrier = Arc::new(Barrier::new(n));
    let (tx, rx) = mpsc::channel::<(usize, Showdown)>();
    let mut handles = Vec::new();
    for (i, job) in jobs.iter().enumerate() {
        let job = job.clone();
        let barrier = barrier.clone();
        let tx = tx.clone();
        // the evaluator is built here and moved into the thread (Send)
        let evaluator = job.evaluator();
        handles.push(std::thread::spawn(move || {
            let mut rng = Rng::new(mix2(seed, i as u64));
            let mut seq: Vec<Key> = Vec::new();
            let mut tickets: Vec<u64> = Vec::new();
            job.guard();
            barrier.wait();
            for sd in evaluator {
                tickets.push(TICKET.fetch_add(1, Ordering::Relaxed));
                seq.push(key(&sd));
                // showdowns cross to the collecting thread and are read there
                if seq.len() % 7 == 1 {
                    let _ = tx.send((i, sd));
                }
                if inject {
                    match rng.below(16) {
                        0 => std::thread::yield_now(),
                        1 => std::thread::sleep(std::time::Duration::from_micros(rng.below(50))),
                        _ => {}
                    }
                }
            }
            (seq, tickets)
        }));
    }
    drop(tx);
    // read the showdowns that were produced on other threads
    let mut received: Vec<(usize, Key)> = Vec::new();
    for (i, sd) in rx.iter() {
        received.push((i, key(&sd)));
    }
    let mut order: Vec<(u64, usize)> = Vec::new();
    for (i, h) in handles.into_iter().enumerate() {
        match h.join() {
            Ok((seq, tickets)) => {
                out.threads += 1;
                out.sequences_compared += 1;
                out.showdowns += seq.len() as u64;
                if seq != solos[i] {
                    let at = seq.iter().zip(solos[i].iter()).position(|(a, b)| a != b).unwrap_or(seq.len().min(solos[i].len()));
                    out.mismatches.push(format!("thread {}: {} showdowns on its own thread, {} alone; first difference at showdown {}", i, seq.len(), solos[i].len(), at));
                }
                for t in tickets {
                    order.push((t, i));
                }
            }
            Err(_) => out.mismatches.push(format!("thread {} panicked", i)),
        }
    }
    for (i, k) in received {
        out.shared_reads += 1;
        if !solos[i].contains(&k) {
            out.mismatches.push(format!("a showdown of thread {} read on another thread is not in its solo sequence", i));
        }
    }
    order.sort_unstable();
    let mut h = 0u64;
    for (_, i) in order {
        h = mix2(h, i as u64);
    }
    out.interleavings.insert(h);
}

/// An iterator advanced on one thread, handed to another thread mid-way, finished there.
fn handoff(job: &Job, solo: &[Key], split: usize, out: &mut Outcome) {
    job.guard();
    let mut it = job.evaluator().into_iter();
    let mut seq: Vec<Key> = Vec::new();
    for _ in 0..split {
        match it.next() {
            Some(sd) => seq.push(key(&sd)),
            None => break,
        }
    }
    let moved_job = job.clone();
    let rest = std::thread::spawn(move || {
        // the second half runs under a fresh detector: a state of the first half cannot be mistaken for a repeat
        moved_job.guard();
        let mut tail = Vec::new();
        for sd in it {
            tail.push(key(&sd));
        }
        tail
    })
    .join();
    out.handoffs += 1;
    match rest {
        Ok(tail) => {
            seq.extend(tail);
            if seq != solo {
                out.mismatches.push(format!("an iterator moved to another thread after {} steps continues differently", split));
            }
        }
        Err(_) => out.mismatches.push("thread finishing a moved iterator panicked".into()),
    }
}

/// Shared (Sync) use: several threads read the same range, the same showdowns.
fn shared_use(job: &Job, solo: &[Key], parse_too: bool, out: &mut Outcome) {
    job.guard();
    let showdowns: Arc<Vec<Showdown>> = Arc::new(job.evaluator().into_iter().collect());
    let ranges = job.ranges.clone();
    let mut handles = Vec::new();
    for t in 0..3 {
        let showdowns = showdowns.clone();
        let ranges = ranges.clone();
        handles.push(std::thread::spawn(move || {
            let keys: Vec<Key> = showdowns.iter().map(key).collect();
            let mut texts = Vec::new();
            for r in ranges.iter() {
                let combos = r.card_pairs().len();
                let rp = r.rank_pairs().len();
                let orphans = r.orphan_card_pairs().len();
                let text = if parse_too { r.to_string() } else { String::new() };
                let back = if parse_too { text.parse::<HandRange>().ok().map(|b| b == *r) } else { Some(true) };
                texts.push((combos, rp, orphans, text, back));
            }
            let _ = t;
            (keys, texts)
        }));
    }
    let mut results = Vec::new();
    for h in handles {
        match h.join() {
            Ok(r) => results.push(r),
            Err(_) => out.mismatches.push("a thread reading shared ranges/showdowns panicked".into()),
        }
    }
    out.shared_reads += results.len() as u64;
    for (keys, texts) in &results {
        if keys != solo {
            out.mismatches.push("showdowns shared through an Arc read differently on another thread".into());
        }
        if *texts != results[0].1 {
            out.mismatches.push("a shared range answers differently on different threads".into());
        }
        if texts.iter().any(|t| t.4 != Some(true)) {
            out.mismatches.push("a shared range formatted and parsed on a thread does not come back equal".into());
        }
    }
}

fn main() {
    let args: Vec<String> = std::env::args().collect();
    let mode = args.get(1).map(|s| s.as_str()).unwrap_or("small");
    let seed: u64 = args.get(2).and_then(|s| s.parse().ok()).unwrap_or(0);
    let thorough = args.get(3).map(|s| s == "thorough").unwrap_or(false);
    let small = mode == "small";
    let mut rng = Rng::new(mix2(seed, 0xC15));
    let mut out = Outcome { threads: 0, sequences_compared: 0, showdowns: 0, mismatches: Vec::new(), interleavings: Default::default(), handoffs: 0, shared_reads: 0 };
    let rounds = if small { 2 } else if thorough { 1500 } else { 300 };
    for r in 0..rounds {
        let n_threads = if small { 3 } else { 2 + rng.usize_below(if thorough { 31 } else { 15 }) };
        let (positions, combos) = if small { (10, 3) } else { (120, 8) };
        let jobs = make_jobs(&mut rng, n_threads, positions, combos);
        // solo sequences first, from evaluators over the very same range objects
        let solos: Vec<Vec<Key>> = match verif_harness::util::catch(|| jobs.iter().map(|j| j.solo()).collect()) {
            Ok(s) => s,
            Err(p) if p.contains(verif_harness::drive::BOUND_PANIC) => {
                // an evaluator iterated alone does not end: nothing to compare threaded runs with (C02/C08's subject)
                println!("THREADS-REPORT {}", Json::obj().set("mode", Json::str(mode)).set("solo_run_does_not_end", Json::str(p)).to_string_compact());
                std::process::exit(3);
            }
            Err(p) => panic!("solo run panicked: {}", p),
        };
        round(&jobs, &solos, mix2(seed, r as u64), r % 2 == 1, &mut out);
        if r % 4 == 0 || small {
            let split = rng.usize_below(solos[0].len() + 1);
            handoff(&jobs[0], &solos[0], split, &mut out);
            shared_use(&jobs[0], &solos[0], !small, &mut out);
        }
    }
    let doc = Json::obj()
        .set("mode", Json::str(mode))
        .set("threads", Json::Int(out.threads as i128))
        .set("sequences_compared", Json::Int(out.sequences_compared as i128))
        .set("showdowns", Json::Int(out.showdowns as i128))
        .set("distinct_interleavings", Json::Int(out.interleavings.len() as i128))
        .set("iterator_handoffs", Json::Int(out.handoffs as i128))
        .set("cross_thread_reads", Json::Int(out.shared_reads as i128))
        .set("mismatches", Json::strs(out.mismatches.iter().take(10).cloned()))
        .set("mismatch_count", Json::Int(out.mismatches.len() as i128));
    println!("THREADS-REPORT {}", doc.to_string_compact());
    if !out.mismatches.is_empty() {
        std::process::exit(1);
    }
}
