//! Seeded workload generators shared by the checks.

use crate::conv::{all_pairs, Combos, Pid};
use crate::refmodel::notation::Tok;
use crate::util::Rng;

pub fn random_flop(rng: &mut Rng) -> [u8; 3] {
    let v = rng.sample(52, 3);
    [v[0] as u8, v[1] as u8, v[2] as u8]
}

/// Flops by texture: 0 random, 1 monotone, 2 two-tone, 3 rainbow, 4 paired, 5 trips, 6 connected.
pub fn textured_flop(rng: &mut Rng, texture: usize) -> [u8; 3] {
    loop {
        let f = match texture % 7 {
            1 => {
                let s = rng.below(4) as u8;
                let r = rng.sample(13, 3);
                [r[0] as u8 * 4 + s, r[1] as u8 * 4 + s, r[2] as u8 * 4 + s]
            }
            2 => {
                let s = rng.sample(4, 2);
                let r = rng.sample(13, 3);
                [r[0] as u8 * 4 + s[0] as u8, r[1] as u8 * 4 + s[0] as u8, r[2] as u8 * 4 + s[1] as u8]
            }
            3 => {
                let s = rng.sample(4, 3);
                let r = rng.sample(13, 3);
                [r[0] as u8 * 4 + s[0] as u8, r[1] as u8 * 4 + s[1] as u8, r[2] as u8 * 4 + s[2] as u8]
            }
            4 => {
                let s = rng.sample(4, 2);
                let r = rng.sample(13, 2);
                [r[0] as u8 * 4 + s[0] as u8, r[0] as u8 * 4 + s[1] as u8, r[1] as u8 * 4 + rng.below(4) as u8]
            }
            5 => {
                let s = rng.sample(4, 3);
                let r = rng.below(13) as u8;
                [r * 4 + s[0] as u8, r * 4 + s[1] as u8, r * 4 + s[2] as u8]
            }
            6 => {
                let top = rng.below(11) as u8;
                [top * 4 + rng.below(4) as u8, (top + 1) * 4 + rng.below(4) as u8, (top + 2) * 4 + rng.below(4) as u8]
            }
            _ => random_flop(rng),
        };
        if f[0] != f[1] && f[0] != f[2] && f[1] != f[2] {
            let mut f = f;
            rng.shuffle(&mut f);
            return f;
        }
    }
}

pub const WEIGHT_FAMILY: [f32; 8] = [1.0, 0.5, 0.25, 0.0, 0.1, 0.75, 0.999, 1.0];

pub fn random_weight(rng: &mut Rng) -> f32 {
    match rng.below(10) {
        0..=6 => WEIGHT_FAMILY[rng.usize_below(WEIGHT_FAMILY.len())],
        _ => rng.f64() as f32,
    }
}

#[derive(Clone, Copy, Debug)]
pub enum WeightMode {
    AllOne,
    Family,
    Random,
    /// 1 and the f32 just below 1
    NearOne,
    /// powers of two and values one ulp around them: products are exact or one rounding away
    Binary,
}

fn weight_for(rng: &mut Rng, mode: WeightMode) -> f32 {
    match mode {
        WeightMode::AllOne => 1.0,
        WeightMode::Family => WEIGHT_FAMILY[rng.usize_below(WEIGHT_FAMILY.len())],
        WeightMode::Random => random_weight(rng),
        WeightMode::NearOne => [1.0f32, f32::from_bits(0x3f7f_ffff)][rng.usize_below(2)],
        WeightMode::Binary => [0.5f32, 0.25, f32::from_bits(0x3f7f_ffff), f32::from_bits(0x3eff_ffff), f32::from_bits(0x3f00_0001), 0.75, 1.0][rng.usize_below(7)],
    }
}

/// `size` distinct combos drawn uniformly from all 1326.
pub fn random_range(rng: &mut Rng, size: usize, mode: WeightMode) -> Combos {
    let all = all_pairs();
    let idx = rng.sample(all.len(), size.min(all.len()));
    idx.into_iter().map(|i| (all[i], weight_for(rng, mode))).collect()
}

/// Combos drawn only from a small set of cards so that players block each other often.
pub fn clustered_range(rng: &mut Rng, cards: &[u8], size: usize, mode: WeightMode) -> Combos {
    let mut pool: Vec<Pid> = Vec::new();
    for (i, a) in cards.iter().enumerate() {
        for b in cards.iter().skip(i + 1) {
            pool.push(crate::conv::pid(*a, *b));
        }
    }
    rng.shuffle(&mut pool);
    pool.truncate(size.min(pool.len()));
    pool.into_iter().map(|p| (p, weight_for(rng, mode))).collect()
}

/// The meaning of a notation token list as a combo list (later tokens win).
pub fn range_from_tokens(tokens: &[(Tok, f32)]) -> Combos {
    crate::refmodel::notation::expand_list(tokens).into_iter().collect()
}

/// A poker-like range: a few notation tokens.
pub fn notation_range(rng: &mut Rng, tokens: usize, mode: WeightMode) -> (String, Combos) {
    let mut list = Vec::new();
    for _ in 0..tokens {
        let tok = random_token(rng);
        list.push((tok, weight_for(rng, mode)));
    }
    let text = list
        .iter()
        .map(|(t, w)| if *w == 1.0 { t.text() } else { format!("{}:{}", t.text(), w) })
        .collect::<Vec<_>>()
        .join(",");
    (text, range_from_tokens(&list))
}

pub fn random_token(rng: &mut Rng) -> Tok {
    loop {
        let x = rng.below(12) as u8;
        let y = x + 1 + rng.below((12 - x) as u64) as u8;
        let tok = match rng.below(10) {
            0 => Tok::Pocket(rng.below(13) as u8),
            1 => Tok::PocketPlus(rng.below(13) as u8),
            2 => {
                let r = rng.below(12) as u8;
                Tok::PocketSpan(r, r + 1 + rng.below((12 - r) as u64) as u8)
            }
            3 => Tok::Suited(x, y),
            4 => Tok::Offsuit(x, y),
            5 => Tok::SuitedPlus(x, y),
            6 => Tok::OffsuitPlus(x, y),
            7 | 8 => {
                if y >= 12 {
                    continue;
                }
                let z = y + 1 + rng.below((12 - y) as u64) as u8;
                if rng.chance(1, 2) {
                    Tok::SuitedSpan(x, y, z)
                } else {
                    Tok::OffsuitSpan(x, y, z)
                }
            }
            _ => {
                let v = rng.sample(52, 2);
                Tok::Combo(v[0] as u8, v[1] as u8)
            }
        };
        if tok.well_formed() {
            return tok;
        }
    }
}
