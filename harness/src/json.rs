//! Minimal JSON value, writer and parser (no external crates available offline).

use std::fmt::Write;

#[derive(Clone, Debug, PartialEq)]
pub enum Json {
    Null,
    Bool(bool),
    Int(i128),
    Num(f64),
    Str(String),
    Arr(Vec<Json>),
    Obj(Vec<(String, Json)>),
}

impl Json {
    pub fn obj() -> Json {
        Json::Obj(Vec::new())
    }

    pub fn str(s: impl Into<String>) -> Json {
        Json::Str(s.into())
    }

    pub fn int(v: impl TryInto<i128>) -> Json {
        Json::Int(v.try_into().ok().unwrap_or(0))
    }

    pub fn arr<I: IntoIterator<Item = Json>>(it: I) -> Json {
        Json::Arr(it.into_iter().collect())
    }

    pub fn strs<I: IntoIterator<Item = S>, S: Into<String>>(it: I) -> Json {
        Json::Arr(it.into_iter().map(|s| Json::Str(s.into())).collect())
    }

    /// Sets (or replaces) a key of an object; returns self for chaining.
    pub fn set(mut self, key: &str, value: Json) -> Json {
        self.put(key, value);
        self
    }

    pub fn put(&mut self, key: &str, value: Json) {
        if let Json::Obj(items) = self {
            if let Some(slot) = items.iter_mut().find(|(k, _)| k == key) {
                slot.1 = value;
            } else {
                items.push((key.to_string(), value));
            }
        }
    }

    pub fn get(&self, key: &str) -> Option<&Json> {
        match self {
            Json::Obj(items) => items.iter().find(|(k, _)| k == key).map(|(_, v)| v),
            _ => None,
        }
    }

    pub fn as_str(&self) -> Option<&str> {
        match self {
            Json::Str(s) => Some(s),
            _ => None,
        }
    }

    pub fn as_i128(&self) -> Option<i128> {
        match self {
            Json::Int(i) => Some(*i),
            Json::Num(f) if f.fract() == 0.0 => Some(*f as i128),
            _ => None,
        }
    }

    pub fn as_arr(&self) -> Option<&Vec<Json>> {
        match self {
            Json::Arr(a) => Some(a),
            _ => None,
        }
    }

    pub fn to_string_pretty(&self) -> String {
        let mut out = String::new();
        self.write(&mut out, 0, true);
        out.push('\n');
        out
    }

    pub fn to_string_compact(&self) -> String {
        let mut out = String::new();
        self.write(&mut out, 0, false);
        out
    }

    fn write(&self, out: &mut String, indent: usize, pretty: bool) {
        match self {
            Json::Null => out.push_str("null"),
            Json::Bool(b) => out.push_str(if *b { "true" } else { "false" }),
            Json::Int(i) => {
                let _ = write!(out, "{}", i);
            }
            Json::Num(f) => {
                if f.is_finite() {
                    let s = format!("{}", f);
                    out.push_str(&s);
                    if !s.contains('.') && !s.contains('e') && !s.contains('E') {
                        out.push_str(".0");
                    }
                } else {
                    out.push_str("null");
                }
            }
            Json::Str(s) => write_str(out, s),
            Json::Arr(items) => {
                if items.is_empty() {
                    out.push_str("[]");
                    return;
                }
                let simple = items
                    .iter()
                    .all(|i| !matches!(i, Json::Arr(_) | Json::Obj(_)));
                out.push('[');
                for (n, item) in items.iter().enumerate() {
                    if n > 0 {
                        out.push(',');
                        if simple && pretty {
                            out.push(' ');
                        }
                    }
                    if pretty && !simple {
                        newline(out, indent + 1);
                    }
                    item.write(out, indent + 1, pretty);
                }
                if pretty && !simple {
                    newline(out, indent);
                }
                out.push(']');
            }
            Json::Obj(items) => {
                if items.is_empty() {
                    out.push_str("{}");
                    return;
                }
                out.push('{');
                for (n, (k, v)) in items.iter().enumerate() {
                    if n > 0 {
                        out.push(',');
                    }
                    if pretty {
                        newline(out, indent + 1);
                    }
                    write_str(out, k);
                    out.push(':');
                    if pretty {
                        out.push(' ');
                    }
                    v.write(out, indent + 1, pretty);
                }
                if pretty {
                    newline(out, indent);
                }
                out.push('}');
            }
        }
    }

    pub fn parse(text: &str) -> Result<Json, String> {
        let mut p = Parser { s: text.as_bytes(), i: 0 };
        p.ws();
        let v = p.value()?;
        p.ws();
        if p.i != p.s.len() {
            return Err(format!("trailing data at byte {}", p.i));
        }
        Ok(v)
    }
}

fn newline(out: &mut String, indent: usize) {
    out.push('\n');
    for _ in 0..indent {
        out.push_str("  ");
    }
}

fn write_str(out: &mut String, s: &str) {
    out.push('"');
    for c in s.chars() {
        match c {
            '"' => out.push_str("\\\""),
            '\\' => out.push_str("\\\\"),
            '\n' => out.push_str("\\n"),
            '\r' => out.push_str("\\r"),
            '\t' => out.push_str("\\t"),
            c if (c as u32) < 0x20 => {
                let _ = write!(out, "\\u{:04x}", c as u32);
            }
            c => out.push(c),
        }
    }
    out.push('"');
}

struct Parser<'a> {
    s: &'a [u8],
    i: usize,
}

impl<'a> Parser<'a> {
    fn ws(&mut self) {
        while self.i < self.s.len() && matches!(self.s[self.i], b' ' | b'\n' | b'\r' | b'\t') {
            self.i += 1;
        }
    }

    fn value(&mut self) -> Result<Json, String> {
        if self.i >= self.s.len() {
            return Err("unexpected end".into());
        }
        match self.s[self.i] {
            b'{' => {
                self.i += 1;
                let mut items = Vec::new();
                self.ws();
                if self.peek() == Some(b'}') {
                    self.i += 1;
                    return Ok(Json::Obj(items));
                }
                loop {
                    self.ws();
                    let k = match self.value()? {
                        Json::Str(s) => s,
                        _ => return Err("object key must be a string".into()),
                    };
                    self.ws();
                    self.expect(b':')?;
                    self.ws();
                    let v = self.value()?;
                    items.push((k, v));
                    self.ws();
                    match self.peek() {
                        Some(b',') => self.i += 1,
                        Some(b'}') => {
                            self.i += 1;
                            return Ok(Json::Obj(items));
                        }
                        _ => return Err(format!("expected , or }} at {}", self.i)),
                    }
                }
            }
            b'[' => {
                self.i += 1;
                let mut items = Vec::new();
                self.ws();
                if self.peek() == Some(b']') {
                    self.i += 1;
                    return Ok(Json::Arr(items));
                }
                loop {
                    self.ws();
                    items.push(self.value()?);
                    self.ws();
                    match self.peek() {
                        Some(b',') => self.i += 1,
                        Some(b']') => {
                            self.i += 1;
                            return Ok(Json::Arr(items));
                        }
                        _ => return Err(format!("expected , or ] at {}", self.i)),
                    }
                }
            }
            b'"' => {
                self.i += 1;
                let mut out = String::new();
                loop {
                    if self.i >= self.s.len() {
                        return Err("unterminated string".into());
                    }
                    let c = self.s[self.i];
                    self.i += 1;
                    match c {
                        b'"' => return Ok(Json::Str(out)),
                        b'\\' => {
                            let e = *self.s.get(self.i).ok_or("bad escape")?;
                            self.i += 1;
                            match e {
                                b'n' => out.push('\n'),
                                b'r' => out.push('\r'),
                                b't' => out.push('\t'),
                                b'b' => out.push('\u{8}'),
                                b'f' => out.push('\u{c}'),
                                b'u' => {
                                    let hex = std::str::from_utf8(
                                        self.s.get(self.i..self.i + 4).ok_or("bad \\u")?,
                                    )
                                    .map_err(|_| "bad \\u")?;
                                    let cp = u32::from_str_radix(hex, 16).map_err(|_| "bad \\u")?;
                                    self.i += 4;
                                    out.push(char::from_u32(cp).unwrap_or('\u{fffd}'));
                                }
                                other => out.push(other as char),
                            }
                        }
                        _ => {
                            // copy a whole UTF-8 sequence
                            let start = self.i - 1;
                            let mut end = self.i;
                            while end < self.s.len() && (self.s[end] & 0xC0) == 0x80 {
                                end += 1;
                            }
                            out.push_str(
                                std::str::from_utf8(&self.s[start..end]).map_err(|_| "bad utf8")?,
                            );
                            self.i = end;
                        }
                    }
                }
            }
            b't' if self.s[self.i..].starts_with(b"true") => {
                self.i += 4;
                Ok(Json::Bool(true))
            }
            b'f' if self.s[self.i..].starts_with(b"false") => {
                self.i += 5;
                Ok(Json::Bool(false))
            }
            b'n' if self.s[self.i..].starts_with(b"null") => {
                self.i += 4;
                Ok(Json::Null)
            }
            _ => {
                let start = self.i;
                while self.i < self.s.len()
                    && matches!(self.s[self.i], b'0'..=b'9' | b'-' | b'+' | b'.' | b'e' | b'E')
                {
                    self.i += 1;
                }
                let t = std::str::from_utf8(&self.s[start..self.i]).map_err(|_| "bad number")?;
                if let Ok(i) = t.parse::<i128>() {
                    Ok(Json::Int(i))
                } else {
                    t.parse::<f64>()
                        .map(Json::Num)
                        .map_err(|_| format!("bad number '{}' at {}", t, start))
                }
            }
        }
    }

    fn peek(&self) -> Option<u8> {
        self.s.get(self.i).copied()
    }

    fn expect(&mut self, c: u8) -> Result<(), String> {
        if self.peek() == Some(c) {
            self.i += 1;
            Ok(())
        } else {
            Err(format!("expected '{}' at {}", c as char, self.i))
        }
    }
}

#[cfg(test)]
mod tests {
    use super::*;

    #[test]
    fn round_trip() {
        let v = Json::obj()
            .set("a", Json::Int(3))
            .set("b", Json::arr([Json::str("x\"y\n\u{1}é"), Json::Num(0.5), Json::Null]))
            .set("c", Json::obj().set("d", Json::Bool(true)));
        assert_eq!(Json::parse(&v.to_string_pretty()).unwrap(), v);
        assert_eq!(Json::parse(&v.to_string_compact()).unwrap(), v);
    }
}
