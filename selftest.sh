#!/bin/bash
# Sensitivity self-test: applies every seeded change (seeded/<id>/patch.diff) to a SCRATCH COPY of the
# repository (never to /repo), runs the quick check of the property it breaks against that copy and expects
# exit 1 with a VIOLATION line; then runs the same checks once on the unpatched copy and expects exit 0.
#   selftest.sh [<seeded dir name> ...]        (default: all)
# The copy and its build output live under $SELFTEST_DIR (default /tmp/verif-selftest) and are removed at the end.
set -u
VERIF_DIR="$(cd "$(dirname "$0")" && pwd)"
SRC="${VERIF_REPO_SRC:-/repo}"
BASE="${SELFTEST_DIR:-/tmp/verif-selftest}"
rm -rf "$BASE"; mkdir -p "$BASE"
rsync -a --exclude target --exclude .git "$SRC/" "$BASE/repo/"
( cd "$BASE/repo" && git init -q && git add -A && git -c user.email=v@v -c user.name=v commit -qm base )
export VERIF_REPO="$BASE/repo"
export VERIF_TARGET="$BASE/target"
export VERIF_SKIP_MIRI="${VERIF_SKIP_MIRI:-1}"     # Miri adds ~35 s per C15 run and no seeded change needs it
cd "$VERIF_DIR"
LIST=("$@")
if [ ${#LIST[@]} -eq 0 ]; then LIST=($(ls seeded)); fi
PASS=0; FAIL=0; USED=""
for M in "${LIST[@]}"; do
  [ -f "seeded/$M/patch.diff" ] || continue
  IDS=$(jq -r '.caught_by_quick | join(" ")' "seeded/$M/meta.json")
  if [ -z "$IDS" ]; then
    echo "$M: recorded as NOT DETECTED (limit of the technique, see DESIGN 6c): skipped"; continue
  fi
  ( cd "$BASE/repo" && git checkout -q -- . && git clean -fdq && git apply "$VERIF_DIR/seeded/$M/patch.diff" ) || { echo "$M: patch does not apply"; FAIL=$((FAIL+1)); continue; }
  HIT=""
  for ID in $IDS; do
    VERIF_EVIDENCE_FILE="$BASE/evidence-$M-$ID.json" ./run_check.sh "$ID" quick > "$BASE/$M-$ID.log" 2>&1
    RC=$?
    if [ $RC -eq 1 ] && grep -q "^VIOLATION property=$ID" "$BASE/$M-$ID.log"; then
      HIT="$ID"; echo "$M: caught by $ID ($(grep -m1 '^  violation:' "$BASE/$M-$ID.log" | cut -c1-140))"; break
    fi
  done
  if [ -n "$HIT" ]; then PASS=$((PASS+1)); else echo "$M: MISSED by $IDS"; FAIL=$((FAIL+1)); fi
  USED="$USED $IDS"
done
( cd "$BASE/repo" && git checkout -q -- . && git clean -fdq )
if [ "${SELFTEST_CLEAN:-1}" = "1" ]; then
  for ID in $(printf '%s\n' $USED | sort -u); do
    VERIF_EVIDENCE_FILE="$BASE/evidence-$ID-clean.json" ./run_check.sh "$ID" quick > "$BASE/$ID-clean.log" 2>&1
    RC=$?
    if [ $RC -eq 0 ]; then echo "$ID: silent on the unpatched copy"; else echo "$ID: NOT silent on the unpatched copy (exit $RC)"; FAIL=$((FAIL+1)); fi
  done
fi
echo "selftest: $PASS caught, $FAIL problems"
rm -rf "$BASE"
[ $FAIL -eq 0 ]
