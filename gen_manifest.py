#!/usr/bin/env python3
"""Regenerates MANIFEST.json from the table below and validates it against the schema."""
import json, subprocess, sys

HOOK_COMMITS = ["81aaa17"]

# id -> (technique, level text, level note, design ref)
CHECKS = {
 "C13": ("exhaustive runtime oracle over the finite conversion/order/range relations",
         "Every relation the property names is executed on the real code for its whole finite domain (52 cards, 52 low bit words, 128+16384 ASCII strings, 13 ranks, 4 suits, all start<=end endpoint pairs) and compared with an independent table; exhaustive, so 'held' means held for every input of the stated spaces.",
         "Trusts rustc/std and the harness's 13+4 element constant tables; reversed range endpoints are outside the statement and exercised under C09 only.", "DESIGN.md §4 C13"),
 "C14": ("exhaustive runtime oracle over all ordered card pairs",
         "All 2652 ordered pairs of distinct cards run through CardPair::new/Eq/Hash/Index/Display/FromStr and a HashMap and HandRange filled in both orders; exhaustive over the property's domain.",
         "Trusts std's DefaultHasher and the fxhash crate as the two hashers named by the property.", "DESIGN.md §4 C14"),
}

NOT_YET = {}

def main():
    props = [json.loads(l) for l in open('/verif/properties.jsonl')]
    checks = []
    na = []
    for p in props:
        pid = p["id"]
        if pid in CHECKS:
            tech, text, note, ref = CHECKS[pid]
            checks.append({
                "property_id": pid,
                "quick_cmd": f"./run_check.sh {pid} quick",
                "thorough_cmd": f"./run_check.sh {pid} thorough",
                "evidence_file": f"/verif/evidence/{pid}.json",
                "replay_cmd_template": f"./run_check.sh {pid} --replay {{path}}",
                "engine": "harness",
                "level_claimed": {"category": "exploration", "text": text, "design_ref": ref},
                "level_note": note,
                "technique": tech,
            })
        else:
            na.append({"property_id": pid, "reason": NOT_YET.get(pid, "check under construction in this round: no command is registered yet, so nothing is claimed (runtime monitoring applies; see DESIGN.md §4)")})
    m = {
        "version": 1,
        "setup_cmd": "./setup.sh",
        "hooks": {
            "guard": "cargo feature verif-hooks of crate espada (default off)",
            "enable": "the harness crate /verif/harness path-depends on /repo with features=[\"verif-hooks\"]; every check runs `cargo build --offline` first, which rebuilds espada from /repo's working tree",
            "baseline_off_cmd": "cd /repo && cargo test --workspace --no-fail-fast --offline",
            "source_commits": HOOK_COMMITS,
            "add_only": True,
        },
        "engines": [
            {"name": "harness", "path": "/verif/harness", "serves_properties": sorted(CHECKS.keys()),
             "kind_free_text": "Rust binary `verif`: drives the real espada code (hooks on) over seeded/exhaustive workloads under online reference-model monitors; release profile plus a dev-profile build (overflow checks, debug assertions) where the property names build profiles; crash-isolated child processes on 2 MiB threads for stack/abort observation"},
        ],
        "checks": checks,
        "not_applicable": na,
        "notes": "Technique family: runtime monitoring and sanitizers. Verdicts: exit 0 held on everything explored, exit 1 + VIOLATION line, exit 2 inconclusive (never folded into the others). Known findings: /verif/known_findings.txt. Seeds: VERIF_SEED.",
    }
    if not na:
        del m["not_applicable"]
    json.dump(m, open('/verif/MANIFEST.json', 'w'), indent=1)
    r = subprocess.run(["python3-vt", "-c", "import json,jsonschema; jsonschema.validate(json.load(open('/verif/MANIFEST.json')), json.load(open('/root/.vp/MANIFEST.schema.json'))); print('MANIFEST valid')"], capture_output=True, text=True)
    print(r.stdout.strip(), r.stderr.strip()[-500:])
    return 0 if r.returncode == 0 else 1

if __name__ == "__main__":
    sys.exit(main())
