#!/usr/bin/env python3
"""Regenerates MANIFEST.json from the table below and validates it against the schema."""
import json, subprocess, sys

HOOK_COMMITS = ["81aaa17"]
TRUST = "Trusts rustc/std, the harness's own oracles (self-checked against published constants before each run) and the translation of cards through the public Rank/Suit enum variants."

# id -> (technique, level text, level note, design ref)
CHECKS = {
 "C01": ("online reference-model monitor (best-of-21 five-card ranker) over exhaustive/seeded executions of MadeHand::from, table-slot hook for coverage",
         "Every observed execution of the real evaluator is compared with an independent naive ranker: quick covers every flush-table execution (all 4,089,228 sets with >=5 cards of a suit), every one of the 49,205 no-flush slots, 8M random sets and 10,000 sets in all 5040 orders; thorough covers all 133,784,560 sets (exhaustive over sets) plus 400,000 sets in all orders, and checks Ord/PartialOrd/Eq of consecutive hands against poker order. Held means: no disagreement on any observed execution.",
         TRUST + " The 7! presentation orders per set are sampled (seed-hashed order per set), exhausted only for the listed sets.", "DESIGN.md §4 C01"),
 "C02": ("online boundary monitor + naive-enumerator oracle (multiset fingerprints per board position) over complete drains of the real evaluator; deal hook for coverage and a logical non-termination bound",
         "Each case drains the real FlopExhaustiveEvaluator completely; every showdown is checked locally (flop order, unseen turn/river, combo from the player's own range, 5+2n distinct cards, probability = weight product) and the multiset of yielded deals must equal the naive enumeration position by position. Cases: 1-8 players, range sizes 1..1326 (255/256/257 boundaries), identical/overlapping/flop-blocked ranges, parsed and collected ranges, seeded random configurations.",
         TRUST + " Range lists are sampled, not enumerated; f32 probability compared with relative tolerance 1e-5.", "DESIGN.md §4 C02"),
 "C04": ("online comparison of scoped runs with the unscoped run (position order, per-position multiset fingerprints, exhaustion) over seeded/exhaustive scope pairs and chains; dev-profile child pass",
         "Every scoped run of the real evaluator is compared online with the unscoped run of the same configuration. Quick: all 1177 starts x 8 characteristic ends per configuration, 2,380 random chains, repeated scope() calls, and a dev-profile pass (debug assertions). Thorough: all 693,253 (from<=to) pairs for three configurations.",
         TRUST + " Configurations (flop, ranges) are sampled; the unscoped run is the reference and is itself checked against R3 under C02.", "DESIGN.md §4 C04"),
 "C07": ("online reference-model monitor (category of the best five cards) over the C01 sweep",
         "The Debug name of hand_type() is compared with the oracle's category on every observed evaluation: quick reaches every one of the 4,824 reachable power indexes (all flush-table executions, all rank multisets), thorough all 133,784,560 sets; the strongest and weakest class seen per category are reported.",
         TRUST, "DESIGN.md §4 C07"),
 "C08": ("crash-isolated child processes on 2 MiB threads in dev and release profiles, wait-status classifier + hook-based deal bound, blocked-run, depth and stack probes",
         "Each (case, profile) drains the real evaluator in its own process on a 2 MiB thread; panic, integer overflow (dev profile), out-of-bounds, stack overflow/abort and logical non-termination (more than 1176*prod(len)+16 considered deals) are violations, a watchdog firing is inconclusive. Cases: combos on the flop beside 1..1326 combos (longest blocked runs), AsKs vs all combos, sizes 0/1/255/256/257/300/1326 in every player position, empty ranges, 6-10 players, random lists.",
         TRUST + " OS/default-stack semantics of std::thread; range lists sampled.", "DESIGN.md §4 C08"),
 "C13": ("exhaustive runtime oracle over the finite conversion/order/range relations",
         "Every relation the property names is executed on the real code for its whole finite domain (52 cards, 52 low bit words, 128+16384 ASCII strings, 13 ranks, 4 suits, all start<=end endpoint pairs) and compared with an independent table; exhaustive, so 'held' means held for every input of the stated spaces.",
         "Trusts rustc/std and the harness's 13+4 element constant tables; reversed range endpoints are outside the statement and exercised under C09 only.", "DESIGN.md §4 C13"),
 "C14": ("exhaustive runtime oracle over all ordered card pairs",
         "All 2652 ordered pairs of distinct cards run through CardPair::new/Eq/Hash/Index/Display/FromStr and a HashMap and HandRange filled in both orders; exhaustive over the property's domain.",
         "Trusts std's DefaultHasher and the fxhash crate as the two hashers named by the property.", "DESIGN.md §4 C14"),
}

NOT_YET = {}

def main():
    props = [json.loads(l) for l in open('/verif/properties.jsonl')]
    checks = []
    na = []
    for p in props:
        pid = p["id"]
        if pid in CHECKS:
            tech, text, note, ref = CHECKS[pid]
            checks.append({
                "property_id": pid,
                "quick_cmd": f"./run_check.sh {pid} quick",
                "thorough_cmd": f"./run_check.sh {pid} thorough",
                "evidence_file": f"/verif/evidence/{pid}.json",
                "replay_cmd_template": f"./run_check.sh {pid} --replay {{path}}",
                "engine": "harness",
                "level_claimed": {"category": "exploration", "text": text, "design_ref": ref},
                "level_note": note,
                "technique": tech,
            })
        else:
            na.append({"property_id": pid, "reason": NOT_YET.get(pid, "check under construction in this round: no command is registered yet, so nothing is claimed (runtime monitoring applies; see DESIGN.md §4)")})
    m = {
        "version": 1,
        "setup_cmd": "./setup.sh",
        "hooks": {
            "guard": "cargo feature verif-hooks of crate espada (default off)",
            "enable": "the harness crate /verif/harness path-depends on /repo with features=[\"verif-hooks\"]; every check runs `cargo build --offline` first, which rebuilds espada from /repo's working tree",
            "baseline_off_cmd": "cd /repo && cargo test --workspace --no-fail-fast --offline",
            "source_commits": HOOK_COMMITS,
            "add_only": True,
        },
        "engines": [
            {"name": "harness", "path": "/verif/harness", "serves_properties": sorted(CHECKS.keys()),
             "kind_free_text": "Rust binary `verif`: drives the real espada code (hooks on) over seeded/exhaustive workloads under online reference-model monitors; release profile plus a dev-profile build (overflow checks, debug assertions) where the property names build profiles; crash-isolated child processes on 2 MiB threads for stack/abort observation"},
        ],
        "checks": checks,
        "not_applicable": na,
        "notes": "Technique family: runtime monitoring and sanitizers. Verdicts: exit 0 held on everything explored, exit 1 + VIOLATION line, exit 2 inconclusive (never folded into the others). Known findings: /verif/known_findings.txt. Seeds: VERIF_SEED.",
    }
    if not na:
        del m["not_applicable"]
    json.dump(m, open('/verif/MANIFEST.json', 'w'), indent=1)
    r = subprocess.run(["python3-vt", "-c", "import json,jsonschema; jsonschema.validate(json.load(open('/verif/MANIFEST.json')), json.load(open('/root/.vp/MANIFEST.schema.json'))); print('MANIFEST valid')"], capture_output=True, text=True)
    print(r.stdout.strip(), r.stderr.strip()[-500:])
    return 0 if r.returncode == 0 else 1

if __name__ == "__main__":
    sys.exit(main())
