#!/usr/bin/env python3
"""Regenerates MANIFEST.json from the table below and validates it against the schema."""
import json, subprocess, sys

HOOK_COMMITS = ["81aaa17"]
TRUST = "Trusts rustc/std, the harness's own oracles (self-checked against published constants before each run) and the translation of cards through the public Rank/Suit enum variants."

# id -> (technique, level text, level note, design ref)
CHECKS = {
 "C01": ("online reference-model monitor (best-of-21 five-card ranker) over exhaustive/seeded executions of MadeHand::from, table-slot hook for coverage",
         "Every observed execution of the real evaluator is compared with an independent naive ranker: quick covers every flush-table execution (all 4,089,228 sets with >=5 cards of a suit), every one of the 49,205 no-flush slots, 8M random sets and 10,000 sets in all 5040 orders; thorough covers all 133,784,560 sets (exhaustive over sets) plus 400,000 sets in all orders, and checks Ord/PartialOrd/Eq of consecutive hands against poker order; a dev-profile pass (overflow checks, debug assertions) re-evaluates every rank multiset and flush mask in child processes, and a concurrent pool stress has 16 threads re-evaluate pools of 2..65536 hands against the oracle (a shared cache inside the evaluator must survive concurrent use). Held means: no disagreement on any observed execution.",
         TRUST + " The 7! presentation orders per set are sampled (seed-hashed order per set), exhausted only for the listed sets.", "DESIGN.md §4 C01"),
 "C02": ("online boundary monitor + naive-enumerator oracle (multiset fingerprints per board position) over complete drains of the real evaluator; deal hook for coverage and for the non-termination guard (considered-deals budget + cycle detection on the odometer state)",
         "Each case drains the real FlopExhaustiveEvaluator completely; every showdown is checked locally (flop order, unseen turn/river, combo from the player's own range, 5+2n distinct cards, probability = one of the exactly computable f32 products of the weights for up to four players) and the multiset of yielded deals must equal the naive enumeration position by position; for products of range sizes at and beyond 2^32 the first 60,000 showdowns must be legal, pairwise different and not end early; every case of up to 12,000 showdowns is also walked through nth/skip/step_by/take/last/count and compared with the next() loop; zero players and notation spelling combos low card first are covered, and no parsed range may hold one combo under two keys. Cases: 1-8 players, range sizes 1..1326 (255/256/257 boundaries), identical/overlapping/flop-blocked ranges, seats overlapping with chosen non-neighbouring seats only, parsed and collected ranges, seeded random configurations.",
         TRUST + " Range lists are sampled, not enumerated; f32 probability compared with relative tolerance 1e-5.", "DESIGN.md §4 C02"),
 "C04": ("online comparison of scoped runs with the unscoped run (position order, per-position multiset fingerprints, exhaustion) over seeded/exhaustive scope pairs and chains; dev-profile child pass",
         "Every scoped run of the real evaluator is compared online with the unscoped run of the same configuration. Quick: all 1177 starts x 8 characteristic ends per configuration, 2,380 random chains, repeated scope() calls (including back to the whole line, the same scope twice, an empty scope), configurations with an empty range, prefix agreement of unscoped and scoped runs for products of range sizes beyond 2^32, and a dev-profile pass (debug assertions). Thorough: all 693,253 (from<=to) pairs for three configurations.",
         TRUST + " Configurations (flop, ranges) are sampled; the unscoped run is the reference and is itself checked against R3 under C02.", "DESIGN.md §4 C04"),
 "C07": ("online reference-model monitor (category of the best five cards) over the C01 sweep",
         "The partition of hands induced by hand_type() (its Debug name; a renamed variant is accepted as long as the nine categories stay apart) is compared with the oracle's category on every observed evaluation: quick reaches every one of the 4,824 reachable power indexes (all flush-table executions, all rank multisets), thorough all 133,784,560 sets; the strongest and weakest class seen per category are reported.",
         TRUST, "DESIGN.md §4 C07"),
 "C08": ("crash-isolated child processes on 2 MiB threads in dev and release profiles, wait-status classifier + hook-based non-termination guard (deal budget, cycle detection), blocked-run, depth and stack probes",
         "Each (case, profile) drains the real evaluator in its own process on a 2 MiB thread; panic, integer overflow (dev profile), out-of-bounds, stack overflow/abort and logical non-termination (more than 1176*prod(len)+16 considered deals, or an odometer state considered twice) are violations, a watchdog firing is inconclusive. Cases: combos on the flop beside 1..1326 combos (longest blocked runs), AsKs vs all combos, sizes 0/1/255/256/257/300/1326 in every player position, empty ranges, ranges whose every weight is 0, 6-10 and 16/17/20/23 players, random lists; small cases are also drained through size_hint()/collect()/count() and with the scope given explicitly.",
         TRUST + " OS/default-stack semantics of std::thread; range lists sampled.", "DESIGN.md §4 C08"),
 "C03": ("online reference-model monitor (five-card oracle per player) over direct Showdown::new calls",
         "Every observed Showdown::new call is checked for player order, per-player evaluation of its own seven cards, winner flags = exactly the holders of the strongest class, winner_len = flagged count >= 1, echoed cards/board/probability, and None exactly when a hole card lies on the board. Workload: 400k random showdowns with 1..23 players biased to share ranks, all ordered heads-up pairs of the 1081 live combos on tie-making boards (royal/straight flush/quads/broadway/wheel/full house on board), collision cases for every board slot and seat, sequences of consecutive calls on one thread that share players/turn/river over different flops or follow a refused call, and a dev-profile pass with up to 23 players.",
         TRUST + " Boards and player sets are sampled (all heads-up pairs exhausted for the listed boards).", "DESIGN.md §4 C03"),
 "C05": ("online reference-model monitor (standard notation meaning) over parser executions; exhaustive over tokens, seeded over lists",
         "parse::<HandRange>() and parse::<HandRangeToken>()+into_iter() are compared combo by combo and bit by bit with the notation's meaning for every one of the property's 3,796 well-formed tokens (3,640 written from the high end plus the 156 single rank pairs spelled kicker first) under fixed, corner and random weight literals, for 20,000 (quick) / 300,000 (thorough) seeded token lists with forced overlaps (later token wins) and spaces sprinkled anywhere, and for the empty/blank strings; weight literals include exact f32 midpoints nudged in the 45th digit (double rounding), lists repeat earlier tokens verbatim, and some lists start with a complete cover of all 1326 combos.",
         TRUST + " Well formed excludes degenerate spans and reversed rank pairs, whose meaning the statement does not fix; expected weight = Rust's correctly rounded f32 of the literal.", "DESIGN.md §4 C05"),
 "C06": ("online round-trip monitor (format -> parse -> bitwise comparison) over exhaustive row/rank-pair patterns and seeded whole ranges",
         "to_string() then parse::<HandRange>() must reproduce the key set and f32 bits. Quick: every absent/a/b pattern in every row's top and bottom window of up to 7 cells, all 3^6/3^4 patterns in every pocket/suited pair, all 2^12 + sampled 3^12 patterns in 8 offsuit pairs, sampled full rows, random whole ranges, every well-formed token x corner/random weights, every weight whose shortest print does not survive a detour through f64 (std-only sweep; committed list re-derived by the thorough tier), and texts formatted right after a formatter call whose writer failed midway. Thorough: every full-length row pattern (3.2M) and all offsuit pairs.",
         TRUST + " Weights from the corners of [0,1] (0, 1, 1e-45, MIN_POSITIVE, 0.99999994) and random bit patterns; 2^1326 subsets are sampled.", "DESIGN.md §4 C06"),
 "C09": ("panic recorder (catch_unwind + panic hook) around all six parsers and the follow-up operations, supervised process for aborts; exhaustive short strings and token shapes, seeded long/random strings",
         "Every string goes through parse::<Rank|Suit|Card|CardPair|HandRangeToken|HandRange>; every Ok value is formatted, expanded, decomposed and handed to the evaluator. Quick: all strings of length <= 3 over a 30-symbol alphabet (with 2/3/4-byte characters and NUL), all 146,523 strings of the seven token shapes with arbitrary ranks, every well-formed token with a multi-byte character at every offset, random strings, comma lists, strings up to 8 MiB, letters in the other case, lists expanding to far more than 65536 entries, weight literals of up to 5000 digits; a dev-profile batch repeats a slice of all of it in child processes. Thorough: length <= 4 and weights on every shape string.",
         TRUST + " 'All strings over Unicode' is sampled beyond the enumerated sets.", "DESIGN.md §4 C09"),
 "C10": ("online invariant monitor on every combo of every parsed token/range and on showdowns enumerated from parsed ranges",
         "Every Ok result of the token and range parsers is checked for two different cards and a weight in [0,1]; showdowns enumerated from the parsed range (alone and against itself) for probability in [0,1] and distinct cards. Strings: all 22,222 weight literals [01](.d{1,4})? about 120 other float spellings (signs, exponents, inf/nan, bare dots, separators, hex, other scripts) and every string of up to four characters over 015.e-+x on each of the seven token shapes, all 52x52 two-card strings, shape strings with arbitrary ranks and weights, random strings and lists, letters in the other case, weight literals of up to 5000 digits.",
         TRUST + " Any answer that keeps the invariant is accepted (reject, drop, or valid weight).", "DESIGN.md §4 C10"),
 "C11": ("metamorphic runtime monitor: integer win/tie tallies of complete equity loops compared under all 24 suit permutations and all player orders",
         "The README equity loop is run on the real evaluator for a configuration and for each transformed configuration; the k-way win tallies must be identical (permuted with the players); every showdown must have flagged winners == winner_len() >= 1. Quick: 14 configurations (2-4 players, suit-specific combos, weights) x (23 relabellings + all player orders + combinations), 17- and 20-seat tables, notation-built ranges naming combos in both card orders, configurations with an empty seat, and a share of the transformed runs evaluated in lockstep with the original on one thread.",
         TRUST + " Configurations are sampled.", "DESIGN.md §4 C11"),
 "C12": ("online reference-model monitor (exact split R4) over exhaustive in-rank-pair patterns and seeded ranges",
         "rank_pairs() and orphan_card_pairs() of real ranges are compared with the exact split: quick covers all 3^6 x 13 and 3^4 x 78 patterns and all 3^12 patterns of 3 offsuit pairs (others sampled), alone and over random backgrounds, each fifth followed at once by the same combos with the same weights redistributed, complete and near-complete 1326-combo ranges, ranges parsed from reversed spellings, random whole ranges; thorough all 3^12 patterns of all 78 offsuit pairs (41M).",
         TRUST + " 'Same weight' is f32 ==.", "DESIGN.md §4 C12"),
 "C13": ("exhaustive runtime oracle over the finite conversion/order/range relations",
         "Every relation the property names is executed on the real code for its whole finite domain (52 cards, 52 low bit words, 128+16384 ASCII strings, 13 ranks, 4 suits, all start<=end endpoint pairs) and compared with an independent table; exhaustive, so 'held' means held for every input of the stated spaces.",
         "Trusts rustc/std and the harness's 13+4 element constant tables; reversed range endpoints are outside the statement and exercised under C09 only.", "DESIGN.md §4 C13"),
 "C14": ("exhaustive runtime oracle over all ordered card pairs",
         "All 2652 ordered pairs of distinct cards run through CardPair::new/Eq/Hash/Index/Display/FromStr and a HashMap and HandRange filled in both orders; exhaustive over the property's domain.",
         "Trusts std's DefaultHasher and the fxhash crate as the two hashers named by the property.", "DESIGN.md §4 C14"),
 "C15": ("schedule-driven interleaving monitor (solo vs interleaved traces), fresh-process probe (alone vs after other evaluators), threaded stress workload with injected delays, Miri (UB/data-race interpreter) over several scheduler seeds, ThreadSanitizer (thorough), Send+Sync compile probe",
         "Each evaluator's complete showdown trace under 2,000 (quick) / 50,000 (thorough) seeded single-thread schedules over 2-12 live evaluators (including iterators abandoned midway and restarted, twins built from the same combos in another insertion order, siblings with the same ranges on another flop, and evaluators built from one Vec<HandRange> overwritten in place) equals its solo trace; the threaded binary drains one evaluator per thread (2-32 threads, barrier start, yields/sleeps between next() calls, iterators handed over mid-way, showdowns/ranges read through Arc on other threads) natively, under Miri with 3 (quick) / 24 (thorough) scheduler seeds, and under ThreadSanitizer (thorough); the Send+Sync probe must compile; six evaluators (ordinary, with an empty seat, with weights 0) are also run in fresh child processes - alone, after an evaluator with an empty seat, after an ordinary one - and must answer as in the check's own process.",
         TRUST + " OS schedules are sampled; Miri/TSan/cargo failures other than a UB/race report are inconclusive.", "DESIGN.md §4 C15"),
 "C16": ("exhaustive runtime oracle over worker counts (list validity) plus end-to-end scoped runs summed against the single run",
         "calculate_scopes(n), compiled from the example's own source, is checked for every n in 1..=4096 (quick) / 1..=32768 (thorough) and 65 seeded n up to 2^22: n scopes, starts at (0,1), ends at (48,49), contiguous, never backwards, only valid positions; for n in 1..=64 (and every flagged n) one real scoped evaluator per scope is run and the sums compared with the single run; the real example program is built and run under taskset with 2..16 CPUs (1..15 workers) and its materialized total and per-hand equities are compared with one evaluator; n around 2^24 and up to 2^25 and a dev-profile pass (list validity for n up to 1024 and the per-scope sums for n up to 96 with the evaluator's debug assertions live) cover the f32 and debug-assertion corners.",
         TRUST + " 'All n >= 1' is cut at 2^22.", "DESIGN.md §4 C16"),
 "C17": ("online structural monitor of the emitted text (strict notation reader + maximal-run oracle R4) and history-independence monitor over construction histories",
         "Every formatted range is read back token by token: rank-pair tokens must be exactly the maximal equal-weight runs in canonical order, followed only by single combos equal to the leftovers; a share of the contents is rebuilt along up to 13 histories (shuffled/reversed collect, overwrites, rebuilt from a larger range, swapped cards, clone, parse of own text/permuted tokens/all-single-combo text) and must print identically, also right after a formatter call whose writer failed midway; a neighbour range (one weight moved by one ulp) that the library calls == must print alike; contents with zeros of both signs are compared across histories bit for bit. Quick: all row-window patterns, 150k sampled full rows, in-rank-pair patterns, random ranges; thorough: every full-length row pattern.",
         TRUST + " Duplicated single-combo tokens (pinned by upstream tests) are tolerated.", "DESIGN.md §4 C17"),
}

NOT_YET = {}

def main():
    props = [json.loads(l) for l in open('/verif/properties.jsonl')]
    checks = []
    na = []
    for p in props:
        pid = p["id"]
        if pid in CHECKS:
            tech, text, note, ref = CHECKS[pid]
            checks.append({
                "property_id": pid,
                "quick_cmd": f"./run_check.sh {pid} quick",
                "thorough_cmd": f"./run_check.sh {pid} thorough",
                "evidence_file": f"/verif/evidence/{pid}.json",
                "replay_cmd_template": f"./run_check.sh {pid} --replay {{path}}",
                "engine": "harness",
                "level_claimed": {"category": "exploration", "text": text, "design_ref": ref},
                "level_note": note,
                "technique": tech,
            })
        else:
            na.append({"property_id": pid, "reason": NOT_YET.get(pid, "check under construction in this round: no command is registered yet, so nothing is claimed (runtime monitoring applies; see DESIGN.md §4)")})
    m = {
        "version": 1,
        "setup_cmd": "./setup.sh",
        "hooks": {
            "guard": "cargo feature verif-hooks of crate espada (default off)",
            "enable": "the harness crate /verif/harness path-depends on /repo with features=[\"verif-hooks\"]; every check runs `cargo build --offline` first, which rebuilds espada from /repo's working tree",
            "baseline_off_cmd": "cd /repo && cargo test --workspace --no-fail-fast --offline",
            "source_commits": HOOK_COMMITS,
            "add_only": True,
        },
        "engines": [
            {"name": "harness", "path": "/verif/harness", "serves_properties": sorted(CHECKS.keys()),
             "kind_free_text": "Rust binary `verif`: drives the real espada code (hooks on) over seeded/exhaustive workloads under online reference-model monitors; release profile plus a dev-profile build (overflow checks, debug assertions) where the property names build profiles; crash-isolated child processes on 2 MiB threads for stack/abort observation"},
        ],
        "checks": checks,
        "not_applicable": na,
        "notes": "Technique family: runtime monitoring and sanitizers. Verdicts: exit 0 held on everything explored, exit 1 + VIOLATION line, exit 2 inconclusive (never folded into the others). Known findings: /verif/known_findings.txt. Seeds: VERIF_SEED.",
    }
    if not na:
        del m["not_applicable"]
    json.dump(m, open('/verif/MANIFEST.json', 'w'), indent=1)
    r = subprocess.run(["python3-vt", "-c", "import json,jsonschema; jsonschema.validate(json.load(open('/verif/MANIFEST.json')), json.load(open('/root/.vp/MANIFEST.schema.json'))); print('MANIFEST valid')"], capture_output=True, text=True)
    print(r.stdout.strip(), r.stderr.strip()[-500:])
    return 0 if r.returncode == 0 else 1

if __name__ == "__main__":
    sys.exit(main())
