#!/bin/bash
# MANIFEST.setup_cmd: build the framework offline from files on disk only.
set -u
VERIF_DIR="$(cd "$(dirname "$0")" && pwd)"
export CARGO_NET_OFFLINE=true
export CARGO_TERM_COLOR=never
cd "$VERIF_DIR/harness" || exit 1
[ -f Cargo.lock ] || cp /repo/Cargo.lock Cargo.lock
export CARGO_TARGET_DIR="$VERIF_DIR/harness/target"
cargo build --offline --release --bin verif --bin verif_threads --bin sendsync_probe || exit 1
cargo build --offline --profile=dev --bin verif || exit 1
# warm the Miri build of the threaded workload (C15); a failure here is not fatal:
# the check reports the engine as inconclusive if it cannot run.
MIRIFLAGS="-Zmiri-disable-isolation" CARGO_TARGET_DIR="$VERIF_DIR/harness/target/miri" \
  timeout 900 cargo +nightly miri run --offline --bin verif_threads -- small 0 >/dev/null 2>&1 \
  && echo "miri warm-up ok" || echo "miri warm-up failed (C15 will report the engine as inconclusive)"
echo "setup ok"
