#!/bin/bash
# MANIFEST.setup_cmd: build the framework offline from files on disk only.
set -u
VERIF_DIR="$(cd "$(dirname "$0")" && pwd)"
export CARGO_NET_OFFLINE=true
cd "$VERIF_DIR/harness" || exit 1
[ -f Cargo.lock ] || cp /repo/Cargo.lock Cargo.lock
cargo build --offline --release --bin verif || exit 1
cargo build --offline --profile=dev --bin verif || exit 1
echo "setup ok"
