#!/usr/bin/env python3
"""Syntactic mutation sweep (tooling for DESIGN 6e, not a registered check).

Generates one-token mutants of the library's non-test code in a SCRATCH COPY of the repository, keeps those that still
compile and pass the 1229 tests (plus the example's 2 for scope.rs), and runs the quick checks that watch the mutated
file against the copy. Prints one line per mutant: killed-by-suite / caught-by <ID> / SURVIVED (for manual triage:
equivalent mutant or a gap).

  mutation_sweep.py [--max N] [--seed S] [--files f1,f2,...] [--delete]     (--delete: statement deletion instead of token mutation)
  mutation_sweep.py --tables [--max N] [--seed S]      one literal of the evaluator's lookup tables (dp_table.rs: AS_FLUSH,
                                                        AS_RAINBOW, REF_*) changed by +1 or -1, sampled evenly over the three tables

Scratch copy and build output live under $SWEEP_DIR (default /tmp/verif-sweep) and are removed at the end.
"""
import os, random, re, shutil, subprocess, sys, time, json

VERIF = os.path.dirname(os.path.abspath(__file__))
SRC = os.environ.get("VERIF_REPO_SRC", "/repo")
BASE = os.environ.get("SWEEP_DIR", "/tmp/verif-sweep")

FILES = {
    "src/evaluator/flop_exhaustive.rs": ["C02", "C04", "C08", "C15"],
    "src/evaluator/showdown.rs": ["C03", "C11"],
    "src/evaluator/made_hand.rs": ["C01", "C07"],
    "src/hand_range/hand_range.rs": ["C05", "C06", "C12", "C17"],
    "src/hand_range/hand_range_token.rs": ["C05", "C06", "C09", "C10"],
    "src/hand_range/card_pair.rs": ["C14", "C05"],
    "src/hand_range/rank_pair.rs": ["C05", "C12", "C14"],
    "src/card/card.rs": ["C13", "C05"],
    "src/card/rank.rs": ["C13", "C05"],
    "src/card/suit.rs": ["C13", "C05"],
    "src/card/rank_range.rs": ["C13", "C05"],
    "src/card/suit_range.rs": ["C13"],
    "examples/multi-thread/scope.rs": ["C16"],
}

DELETE_ONLY = False
TABLES = False
TABLE_FILE = "src/evaluator/dp_table.rs"

OPERATORS = [
    (r"(?<![<>=!-])<=(?!=)", "<"), (r"(?<![<>=!&-])<(?![<=])", "<="),
    (r"(?<![<>=!-])>=(?!=)", ">"), (r"(?<![<>=!-])>(?![>=])", ">="),
    (r"==", "!="), (r"!=", "=="),
    (r"&&", "||"), (r"\|\|", "&&"),
    (r"\+ 1\b", "+ 0"), (r"\+ 1\b", "+ 2"), (r"- 1\b", "- 0"), (r"- 1\b", "- 2"),
    (r"\b48\b", "47"), (r"\b49\b", "48"), (r"\b48\b", "49"),
    (r"\.min\(", ".max("), (r"\.max\(", ".min("),
    (r"\btrue\b", "false"), (r"\bfalse\b", "true"),
    (r"\*=", "+="), (r"\+=", "-="),
    (r"\.all\(", ".any("), (r"\.any\(", ".all("),
    (r"\.next\(\)", ".prev()"), (r"inclusive\(", "new("),
    (r"Rank::Deuce", "Rank::Trey"), (r"Rank::Ace", "Rank::King"),
    (r"Suit::Heart", "Suit::Spade"), (r"\[0\]", "[1]"), (r"\[1\]", "[0]"),
    (r"\b1\.0\b", "0.5"), (r"\b0_f32\b", "1_f32"),
]


def sh(cmd, cwd=None, env=None, timeout=3600):
    e = dict(os.environ)
    e["CARGO_NET_OFFLINE"] = "true"
    if env:
        e.update(env)
    # own process group, so that a mutant that makes the test suite itself spin is killed with all its children
    p = subprocess.Popen(cmd, cwd=cwd, env=e, shell=True, stdout=subprocess.PIPE, stderr=subprocess.STDOUT, text=True, start_new_session=True)
    try:
        out, _ = p.communicate(timeout=timeout)
        return p.returncode, out
    except subprocess.TimeoutExpired:
        import signal
        try:
            os.killpg(p.pid, signal.SIGKILL)
        except ProcessLookupError:
            pass
        p.communicate()
        return 124, "timeout"


def code_region(path, text):
    """Line numbers (0-based) of non-test code: everything outside #[cfg(test)] modules (brace matched)."""
    lines = text.split("\n")
    keep = [True] * len(lines)
    i = 0
    while i < len(lines):
        if lines[i].strip().startswith("#[cfg(test)]"):
            # skip to the end of the following mod { ... }
            depth = 0
            started = False
            j = i
            while j < len(lines):
                depth += lines[j].count("{") - lines[j].count("}")
                if "{" in lines[j]:
                    started = True
                keep[j] = False
                if started and depth == 0:
                    break
                j += 1
            i = j + 1
        else:
            i += 1
    return [n for n, k in enumerate(keep) if k]


def table_candidates(seed):
    """One numeric literal of a lookup table changed by one; a third of the sample from each of REF_*, AS_FLUSH, AS_RAINBOW."""
    rng = random.Random(seed)
    lines = open(os.path.join(SRC, TABLE_FILE)).read().split("\n")
    groups = {"REF": [], "AS_FLUSH": [], "AS_RAINBOW": []}
    current = None
    for n, line in enumerate(lines):
        m = re.match(r"^(?:pub )?const (\w+): \[u16; \d+\] = \[(.*)$", line)
        if m:
            current = "REF" if m.group(1).startswith("REF_") else m.group(1)
            body_from = m.start(2)
        elif current and re.match(r"^[\s\d,]*(\];)?\s*$", line):
            body_from = 0
        else:
            current = None
            continue
        if current not in groups:
            continue
        for lit in re.finditer(r"\b\d+\b", line[body_from:]):
            groups[current].append((n, body_from + lit.start(), body_from + lit.end()))
        if line.rstrip().endswith("];"):
            current = None
    out = []
    for g, cands in groups.items():
        rng.shuffle(cands)
        for (n, a, b) in cands[:400]:
            old = lines[n]
            v = int(old[a:b])
            nv = v + 1 if (v == 0 or rng.random() < 0.5) else v - 1
            new = old[:a] + str(nv) + old[b:]
            out.append((TABLE_FILE, n, old, new, f"{g} literal {v} -> {nv} (line {n + 1}, column {a + 1})"))
    print("table literals: " + ", ".join(f"{g} {len(c)}" for g, c in groups.items()), flush=True)
    rng.shuffle(out)
    return out


def candidates(seed, files):
    if TABLES:
        return table_candidates(seed)
    rng = random.Random(seed)
    out = []
    for f in files:
        text = open(os.path.join(SRC, f)).read()
        lines = text.split("\n")
        for n in code_region(f, text):
            line = lines[n]
            s = line.strip()
            if not s or s.startswith("//") or s.startswith("#[") or "verif_hooks" in line or "debug_assert" in line:
                continue
            if f.endswith("made_hand.rs") and ("=> 0b" in line):
                continue
            if DELETE_ONLY:
                # statement deletion: a plain assignment, compound assignment, method-call statement, break or continue
                if re.match(r"^\s+(break|continue);\s*$", line) or re.match(r"^\s+[A-Za-z_][\w\.\[\]\(\)&\* ]*(\s[-+*|&]?=\s.*|\.\w+\(.*\));\s*$", line):
                    if not re.match(r"^\s+(let|return|use|pub|fn|impl|mod|struct|enum|const|static)\b", line):
                        out.append((f, n, line, re.match(r"^\s*", line).group(0) + "// (statement deleted)", "delete statement"))
                continue
            for pat, rep in OPERATORS:
                for m in re.finditer(pat, line):
                    # skip generics / arrows / lifetimes for < and >
                    if pat.startswith(r"(?<![<>=!") and re.search(r"(fn |impl|->|=>|<'|Vec<|Option<|Result<|HashMap<|HashSet<|<T|<Self|<I|Iterator<|IntoIter<|::<|&'|dyn |From<|TryFrom<|Index<)", line):
                        continue
                    new = line[: m.start()] + rep + line[m.end():]
                    out.append((f, n, line, new, f"{pat} -> {rep}"))
    rng.shuffle(out)
    return out


def main():
    args = sys.argv[1:]
    maxn, seed, files = 60, 1, list(FILES)
    while args:
        a = args.pop(0)
        if a == "--max":
            maxn = int(args.pop(0))
        elif a == "--seed":
            seed = int(args.pop(0))
        elif a == "--files":
            files = args.pop(0).split(",")
        elif a == "--tables":
            global TABLES
            TABLES = True
            FILES[TABLE_FILE] = ["C01", "C07"]
        elif a == "--delete":
            global DELETE_ONLY
            DELETE_ONLY = True
    shutil.rmtree(BASE, ignore_errors=True)
    os.makedirs(BASE)
    sh(f"rsync -a --exclude target --exclude .git {SRC}/ {BASE}/repo/")
    sh("git init -q && git add -A && git -c user.email=v@v -c user.name=v commit -qm base", cwd=f"{BASE}/repo")
    env = {"VERIF_REPO": f"{BASE}/repo", "VERIF_TARGET": f"{BASE}/target", "VERIF_SKIP_MIRI": "1", "CARGO_TARGET_DIR": f"{BASE}/repo-target"}
    # warm both builds
    rc, out = sh("cargo test --offline --lib 2>&1 | tail -3", cwd=f"{BASE}/repo", env=env)
    cands = candidates(seed, files)
    print(f"{len(cands)} candidate mutants; trying up to {maxn} that survive the suite", flush=True)
    tried = survived_suite = caught = 0
    survivors = []
    # spread over files: round-robin by file
    byfile = {}
    for c in cands:
        byfile.setdefault(c[0], []).append(c)
    order = []
    while any(byfile.values()):
        for f in list(byfile):
            if byfile[f]:
                order.append(byfile[f].pop())
    for (f, n, old, new, desc) in order:
        if survived_suite >= maxn:
            break
        path = f"{BASE}/repo/{f}"
        lines = open(path).read().split("\n")
        if lines[n] != old:
            continue
        lines[n] = new
        open(path, "w").write("\n".join(lines))
        tried += 1
        test_cmd = "cargo test --offline --lib 2>&1 | grep -E '^test result|error(\\[|:)' | head -3"
        if f.endswith("scope.rs"):
            test_cmd = "cargo test --offline --example multi-thread 2>&1 | grep -E '^test result|error(\\[|:)' | head -3"
        rc, out = sh(test_cmd, cwd=f"{BASE}/repo", env=env, timeout=300)
        ok = ("test result: ok. 1229 passed" in out) or (f.endswith("scope.rs") and "test result: ok. 2 passed" in out)
        label = f"{f}:{n + 1} [{desc}] `{old.strip()[:70]}` -> `{new.strip()[:70]}`"
        if not ok:
            kind = "does-not-compile" if "error" in out else "killed-by-suite"
            print(f"{kind}: {label}", flush=True)
        else:
            survived_suite += 1
            hit = None
            for cid in FILES[f]:
                e = dict(env)
                e.pop("CARGO_TARGET_DIR")
                e["VERIF_EVIDENCE_FILE"] = f"{BASE}/evidence-{cid}.json"
                rc, out = sh(f"./run_check.sh {cid} quick", cwd=VERIF, env=e, timeout=3600)
                if rc == 1 and f"VIOLATION property={cid}" in out:
                    hit = cid
                    first = [l for l in out.split("\n") if l.startswith("  violation:")]
                    print(f"caught-by {cid}: {label} :: {first[0][:160] if first else ''}", flush=True)
                    break
            if hit:
                caught += 1
            else:
                survivors.append(label)
                print(f"SURVIVED: {label} (checks {FILES[f]})", flush=True)
        sh("git checkout -q -- .", cwd=f"{BASE}/repo")
    print(f"sweep: {tried} mutants applied, {survived_suite} survived the test suite, {caught} of those caught by the checks, {len(survivors)} survived everything")
    for s in survivors:
        print("  survivor:", s)
    shutil.rmtree(BASE, ignore_errors=True)


if __name__ == "__main__":
    main()
